// Engine h_threads (C19): concurrent use of the documented thread-safe surface and the multi-threaded planners.
// Built with -fsanitize=thread: every TSan report is turned into a violation key by the driver (monitors/props_threads.py);
// the functional monitors here decide "same results as some sequential order" on recorded histories.
#include "planners_common.h"
#include <cstring>
#include <ompl/base/goals/GoalLazySamples.h>
#include <ompl/datastructures/NearestNeighborsGNAT.h>
#include <ompl/util/VerifHooks.h>
#include <thread>
#include <sched.h>
#include <unistd.h>

using namespace pl;

// ------------------------------------------------------------------------------------------------------
// barrier + yield-hook perturbation
// ------------------------------------------------------------------------------------------------------
struct Barrier
{
    std::atomic<int> waiting{0};
    int n;
    explicit Barrier(int n_) : n(n_) {}
    void wait()
    {
        waiting.fetch_add(1, std::memory_order_acq_rel);
        while (waiting.load(std::memory_order_acquire) < n) sched_yield();
    }
};

namespace hook
{
    static std::atomic<uint64_t> g_seed{0};
    static std::atomic<int> g_threadCounter{0};
    static std::atomic<long> g_slot{0};
    static std::atomic<int> g_epoch{0};
    static const long LOGN = 1 << 15;
    static std::atomic<uint32_t> g_log[LOGN];
    static std::atomic<bool> g_perturb{true};
    struct TL
    {
        int epoch = -1;
        int ordinal = 0;
        uint64_t state = 0;
    };
    static thread_local TL tl;

    static uint32_t pointId(const char *id)
    {
        uint32_t h = 2166136261u;
        for (const char *p = id; *p; ++p) h = (h ^ (unsigned char)*p) * 16777619u;
        return h & 0xffffff;
    }
    static void cb(const char *id)
    {
        int ep = g_epoch.load(std::memory_order_acquire);
        if (tl.epoch != ep)
        {
            tl.epoch = ep;
            tl.ordinal = g_threadCounter.fetch_add(1, std::memory_order_relaxed);
            tl.state = splitmix(g_seed.load(std::memory_order_relaxed) ^ (0x9e37ULL * (tl.ordinal + 1)));
        }
        long s = g_slot.fetch_add(1, std::memory_order_relaxed);
        static const bool dump = getenv("VERIF_DUMP_YIELDS") != nullptr;   // debugging aid: the first events of every solve()
        if (dump && s < 40) fprintf(stderr, "yield %ld thread %d %s\n", s, tl.ordinal, id);
        if (s < LOGN) g_log[s].store(((uint32_t)tl.ordinal << 24) | pointId(id), std::memory_order_relaxed);
        if (!g_perturb.load(std::memory_order_relaxed)) return;
        tl.state = splitmix(tl.state);
        unsigned r = tl.state % 100;
        // start-up points (reached once per solve(), while the other thread is just starting too): a long delay in half of the
        // visits lets the other thread run through a whole round (find a path in the existing roadmap, register it) first
        if (r < 50 && strstr(id, "_start") != nullptr)
        {
            usleep(200 + (tl.state >> 8) % 5000);
            return;
        }
        // a CForest worker about to take a shared state from its pending list: holding it here keeps the list pending while
        // the other workers report further solutions (which replace the list)
        if (r < 30 && strstr(id, "next_sample") != nullptr)
        {
            usleep(200 + (tl.state >> 8) % 3000);
            return;
        }
        if (r < 55) return;
        if (r < 80) sched_yield();
        else usleep(1 + (tl.state >> 8) % (r < 95 ? 20 : 200));
    }
    static void arm(uint64_t seed, bool perturb)
    {
        g_seed = seed;
        g_threadCounter = 0;
        g_slot = 0;
        g_perturb = perturb;
        g_epoch.fetch_add(1, std::memory_order_release);
        ompl::verif::yieldHook.store(&cb, std::memory_order_release);
    }
    static uint64_t signature(long &events)
    {
        ompl::verif::yieldHook.store(nullptr, std::memory_order_release);
        long n = std::min(g_slot.load(), LOGN);
        events = n;
        uint64_t h = 1469598103934665603ULL;
        for (long i = 0; i < std::min(n, 4096L); ++i) h = hmix(h, g_log[i].load(std::memory_order_relaxed));
        return h;
    }
}  // namespace hook

static void emitSig(const Args &a, const std::string &subject, uint64_t h, long events)
{
    FILE *f = fopen(a.out.c_str(), "a");
    if (!f) return;
    fprintf(f, "{\"t\":\"sig\",\"subject\":\"%s\",\"h\":\"%016llx\",\"events\":%ld}\n", jesc(subject).c_str(), (unsigned long long)h, events);
    fclose(f);
}

// ------------------------------------------------------------------------------------------------------
// (A) surface scenarios
// ------------------------------------------------------------------------------------------------------
static void sMotion(Sink &sink, const Args &a, long c, Rng &rng)
{
    auto w = makeWorld(caseSeed(a, c, 5), rng.coin() ? K_SE2 : K_R2, false, 5);
    int T = 2 + rng.ui(15);
    int N = 150 + rng.ui(250);
    std::vector<std::vector<double>> pts;
    {
        auto smp = w->space->allocStateSampler();
        ob::ScopedState<> s(w->space);
        for (int i = 0; i < 64; ++i)
        {
            smp->sampleUniform(s.get());
            pts.push_back(w->reals(s.get()));
        }
    }
    auto mv = w->si->getMotionValidator();
    mv->resetMotionCounter();
    Barrier bar(T);
    std::atomic<long> calls{0}, validSeen{0}, mismatches{0};
    // sequential reference answers
    std::vector<char> ref(64 * 64, 0);
    {
        ob::ScopedState<> p(w->space), q(w->space);
        for (int i = 0; i < 64; ++i)
            for (int j = 0; j < 64; j += 7)
            {
                w->toState(pts[i], p.get());
                w->toState(pts[j], q.get());
                ref[i * 64 + j] = w->si->checkMotion(p.get(), q.get());
            }
    }
    mv->resetMotionCounter();
    std::vector<std::thread> th;
    for (int t = 0; t < T; ++t)
        th.emplace_back([&, t] {
            Rng r(caseSeed(a, c, 100 + t));
            ob::ScopedState<> p(w->space), q(w->space);
            std::pair<ob::State *, double> last;
            last.first = w->si->allocState();
            bar.wait();
            for (int i = 0; i < N; ++i)
            {
                int x = r.ui(64), y = (int)(r.ui(10)) * 7;
                if (y >= 64) y = 63 - (63 % 7);
                w->toState(pts[x], p.get());
                w->toState(pts[y], q.get());
                bool v = (i & 1) ? w->si->checkMotion(p.get(), q.get()) : w->si->checkMotion(p.get(), q.get(), last);
                ++calls;
                if (v) ++validSeen;
                if (v != (bool)ref[x * 64 + y]) ++mismatches;
                (void)w->si->isValid(p.get());
            }
            w->si->freeState(last.first);
        });
    for (auto &t : th) t.join();
    long counted = (long)mv->getValidMotionCount() + (long)mv->getInvalidMotionCount();
    sink.count("c19_checkMotion_calls", calls);
    if (counted != calls.load())
        sink.viol("C19:motion-counters:MotionValidator", J().str("what", "valid+invalid motion counters differ from the number of checkMotion calls made").i("calls", calls).i("counted", counted).i("threads", T));
    if ((long)mv->getValidMotionCount() != validSeen.load())
        sink.viol("C19:motion-counters-valid:MotionValidator", J().str("what", "valid motion counter differs from the number of calls that returned true").i("returned_true", validSeen).i("counted", mv->getValidMotionCount()));
    if (mismatches.load())
        sink.viol("C19:checkMotion-result:SpaceInformation", J().str("what", "concurrent checkMotion answer differs from the sequential answer").i("n", mismatches));
    sink.noteCase(hmix(caseSeed(a, c), T), true);
    sink.sample(J().str("kind", "C19 surface: shared checkMotion").i("threads", T).i("calls_per_thread", N));
}

static void sGnat(Sink &sink, const Args &a, long c, Rng &rng)
{
    const int NP = 1500, NQ = 64;
    std::vector<std::array<double, 2>> pts(NP + NQ);
    for (auto &p : pts) p = {std::floor(rng.uni(0, 60)), std::floor(rng.uni(0, 60))};
    ompl::NearestNeighborsGNAT<int> nn(4 + rng.ui(8), 2, 12, 5 + rng.ui(40), 50);
    nn.setDistanceFunction([&pts](const int &x, const int &y) { return std::fabs(pts[x][0] - pts[y][0]) + std::fabs(pts[x][1] - pts[y][1]); });
    for (int i = 0; i < NP; ++i) nn.add(i);
    // a few removals so that the removal cache is non-empty during the concurrent queries
    for (int i = 0; i < 20; ++i) nn.remove((int)rng.ui(NP));
    auto dist = [&](int x, int y) { return std::fabs(pts[x][0] - pts[y][0]) + std::fabs(pts[x][1] - pts[y][1]); };
    // sequential reference: distance sequences
    std::vector<std::vector<double>> refK(NQ), refR(NQ);
    std::vector<double> refN(NQ);
    for (int q = 0; q < NQ; ++q)
    {
        std::vector<int> out;
        nn.nearestK(NP + q, 7, out);
        for (int e : out) refK[q].push_back(dist(NP + q, e));
        nn.nearestR(NP + q, 6.0, out);
        for (int e : out) refR[q].push_back(dist(NP + q, e));
        refN[q] = dist(NP + q, nn.nearest(NP + q));
    }
    int T = 2 + rng.ui(15);
    Barrier bar(T);
    std::atomic<long> bad{0}, queries{0};
    std::vector<std::thread> th;
    for (int t = 0; t < T; ++t)
        th.emplace_back([&, t] {
            Rng r(caseSeed(a, c, 200 + t));
            bar.wait();
            for (int i = 0; i < 150; ++i)
            {
                int q = r.ui(NQ);
                std::vector<int> out;
                int k = r.ui(3);
                std::vector<double> d;
                if (k == 0)
                {
                    nn.nearestK(NP + q, 7, out);
                    for (int e : out) d.push_back(dist(NP + q, e));
                    if (d != refK[q]) ++bad;
                }
                else if (k == 1)
                {
                    nn.nearestR(NP + q, 6.0, out);
                    for (int e : out) d.push_back(dist(NP + q, e));
                    if (d != refR[q]) ++bad;
                }
                else if (dist(NP + q, nn.nearest(NP + q)) != refN[q])
                    ++bad;
                ++queries;
            }
        });
    for (auto &t : th) t.join();
    sink.count("c19_gnat_queries", queries);
    if (bad.load()) sink.viol("C19:gnat-query-result:NearestNeighborsGNAT", J().str("what", "concurrent query answer differs from the sequential answer").i("n", bad).i("threads", T));
    sink.noteCase(hmix(caseSeed(a, c), T), true);
    sink.sample(J().str("kind", "C19 surface: shared GNAT queries").i("threads", T));
}

static void sCreate(Sink &sink, const Args &a, long c, Rng &rng)
{
    int T = 2 + rng.ui(15);
    Barrier bar(T);
    std::mutex m;
    std::vector<std::string> names;
    std::vector<std::uint_fast32_t> seeds;
    std::vector<std::thread> th;
    for (int t = 0; t < T; ++t)
        th.emplace_back([&, t] {
            bar.wait();
            std::vector<std::string> mine;
            std::vector<std::uint_fast32_t> ms;
            for (int i = 0; i < 40; ++i)
            {
                ompl::RNG r;
                ms.push_back(r.getLocalSeed());
                (void)r.uniform01();
                ob::StateSpacePtr sp;
                switch ((i + t) % 4)
                {
                    case 0:
                        sp = std::make_shared<ob::RealVectorStateSpace>(3);
                        break;
                    case 1:
                        sp = std::make_shared<ob::SE2StateSpace>();
                        break;
                    case 2:
                        sp = std::make_shared<ob::SE3StateSpace>();
                        break;
                    default:
                        sp = std::make_shared<ob::SO2StateSpace>();
                }
                mine.push_back(sp->getName());
                auto smp = sp->allocDefaultStateSampler();
                (void)smp;
            }
            std::lock_guard<std::mutex> l(m);
            names.insert(names.end(), mine.begin(), mine.end());
            seeds.insert(seeds.end(), ms.begin(), ms.end());
        });
    for (auto &t : th) t.join();
    sink.count("c19_spaces_created", names.size());
    sink.count("c19_rngs_created", seeds.size());
    // sequentially created spaces get distinct default names; so must concurrently created ones
    std::set<std::string> uniq(names.begin(), names.end());
    if (uniq.size() != names.size())
        sink.viol("C19:space-names-not-unique:StateSpace", J().str("what", "concurrently created state spaces received the same default name").i("created", names.size()).i("distinct", uniq.size()));
    sink.noteCase(hmix(caseSeed(a, c), T), true);
    sink.sample(J().str("kind", "C19 surface: RNG / state space creation").i("threads", T));
}

// history checker for a shared problem definition
static bool orderedBefore(const ob::PlannerSolution &x, const ob::PlannerSolution &y)
{
    if (x.approximate_ != y.approximate_) return !x.approximate_;
    if (x.approximate_) return x.difference_ < y.difference_;
    if (x.optimized_ != y.optimized_) return x.optimized_;
    if (x.opt_) return x.opt_->isCostBetterThan(x.cost_, y.cost_);
    return x.length_ < y.length_;
}

static void sPdef(Sink &sink, const Args &a, long c, Rng &rng)
{
    auto w = makeWorld(caseSeed(a, c, 5), K_R2, false, 0);
    auto pdef = makePdef(*w, false);
    bool withOpt = rng.coin();
    ob::OptimizationObjectivePtr opt;
    if (withOpt)
    {
        opt = std::make_shared<ob::PathLengthOptimizationObjective>(w->si);
        opt->setCostThreshold(ob::Cost(3.0));
        pdef->setOptimizationObjective(opt);
    }
    int T = 2 + rng.ui(15);
    int W = std::max(1, T / 2);  // writers; the rest read
    struct Add
    {
        std::string id;
        long tCall, tRet;
    };
    struct Snap
    {
        std::vector<std::string> ids;
        long tCall, tRet;
        bool inversion, dup;
    };
    std::atomic<long> clock{0};
    std::vector<std::vector<Add>> adds(T);
    std::vector<std::vector<Snap>> snaps(T);
    Barrier bar(T);
    std::vector<std::thread> th;
    for (int t = 0; t < T; ++t)
        th.emplace_back([&, t] {
            Rng r(caseSeed(a, c, 300 + t));
            bar.wait();
            for (int i = 0; i < 40; ++i)
            {
                if (t < W && r.coin(0.7))
                {
                    auto path = std::make_shared<og::PathGeometric>(w->si);
                    ob::ScopedState<> s(w->space);
                    s[0] = 0.5;
                    s[1] = 0.5;
                    path->append(s.get());
                    s[0] = 0.5 + 0.5 * (1 + r.ui(8));
                    path->append(s.get());
                    ob::PlannerSolution sol(path);
                    std::string id = "t" + std::to_string(t) + "-" + std::to_string(i);
                    sol.setPlannerName(id);
                    if (r.coin(0.3)) sol.setApproximate(0.25 * r.ui(5));
                    if (withOpt) sol.setOptimized(opt, ob::Cost(path->length()), opt->isSatisfied(ob::Cost(path->length())));
                    Add ad{id, clock.fetch_add(1), 0};
                    pdef->addSolutionPath(sol);
                    ad.tRet = clock.fetch_add(1);
                    adds[t].push_back(ad);
                }
                else
                {
                    Snap sn;
                    sn.tCall = clock.fetch_add(1);
                    auto sols = pdef->getSolutions();
                    sn.tRet = clock.fetch_add(1);
                    sn.inversion = false;
                    std::set<std::string> seen;
                    sn.dup = false;
                    for (size_t k = 0; k < sols.size(); ++k)
                    {
                        sn.ids.push_back(sols[k].plannerName_);
                        if (!seen.insert(sols[k].plannerName_).second) sn.dup = true;
                        if (k && orderedBefore(sols[k], sols[k - 1])) sn.inversion = true;
                    }
                    snaps[t].push_back(sn);
                    (void)pdef->hasExactSolution();
                    (void)pdef->getSolutionDifference();
                    (void)pdef->getSolutionPath();
                    (void)pdef->getSolutionCount();
                }
            }
        });
    for (auto &t : th) t.join();
    long nadds = 0, nsnaps = 0;
    std::map<std::string, const Add *> byId;
    for (auto &v : adds)
        for (auto &ad : v)
        {
            byId[ad.id] = &ad;
            ++nadds;
        }
    bool bad = false;
    for (auto &v : snaps)
        for (auto &sn : v)
        {
            ++nsnaps;
            std::set<std::string> ids(sn.ids.begin(), sn.ids.end());
            if (sn.dup && !bad) bad = true, sink.viol("C19:pdef-history-duplicate:ProblemDefinition", J().str("what", "a snapshot of getSolutions() contains a solution twice"));
            if (sn.inversion && !bad) bad = true, sink.viol("C19:pdef-history-order:ProblemDefinition", J().str("what", "a snapshot of getSolutions() is not in the stated order"));
            for (auto &kv : byId)
            {
                bool in = ids.count(kv.first) > 0;
                if (!in && kv.second->tRet < sn.tCall && !bad)
                    bad = true, sink.viol("C19:pdef-history-lost:ProblemDefinition", J().str("what", "snapshot misses a solution whose addSolutionPath() had returned before getSolutions() was called").str("id", kv.first));
                if (in && kv.second->tCall > sn.tRet && !bad)
                    bad = true, sink.viol("C19:pdef-history-future:ProblemDefinition", J().str("what", "snapshot contains a solution whose addSolutionPath() was called after getSolutions() returned").str("id", kv.first));
            }
            for (auto &id : ids)
                if (!byId.count(id) && !bad) bad = true, sink.viol("C19:pdef-history-unknown:ProblemDefinition", J().str("what", "snapshot contains a solution nobody added").str("id", id));
        }
    auto fin = pdef->getSolutions();
    std::multiset<std::string> finIds;
    for (auto &s : fin) finIds.insert(s.plannerName_);
    std::multiset<std::string> want;
    for (auto &kv : byId) want.insert(kv.first);
    if (finIds != want)
        sink.viol("C19:pdef-history-final:ProblemDefinition", J().str("what", "final solution set differs from the multiset of all adds (lost or duplicated)").i("final", fin.size()).i("added", nadds));
    sink.count("c19_pdef_adds", nadds);
    sink.count("c19_pdef_snapshots", nsnaps);
    sink.noteCase(hmix(caseSeed(a, c), T), nadds > 0 && nsnaps > 0);
    sink.sample(J().str("kind", "C19 surface: shared ProblemDefinition history").i("threads", T).i("adds", nadds).i("snapshots", nsnaps));
}

struct Recorder : ompl::msg::OutputHandler
{
    std::mutex m;
    std::vector<std::string> lines;
    void log(const std::string &text, ompl::msg::LogLevel, const char *, int) override
    {
        std::lock_guard<std::mutex> l(m);
        lines.push_back(text);
    }
};

static void sLog(Sink &sink, const Args &a, long c, Rng &rng)
{
    Recorder rec;
    ompl::msg::useOutputHandler(&rec);
    ompl::msg::setLogLevel(ompl::msg::LOG_INFO);
    int T = 2 + rng.ui(15), N = 60;
    Barrier bar(T);
    std::vector<std::thread> th;
    for (int t = 0; t < T; ++t)
        th.emplace_back([&, t] {
            bar.wait();
            for (int i = 0; i < N; ++i)
            {
                std::string payload(20 + (t * 7 + i) % 60, (char)('a' + (t + i) % 26));
                if (i & 1) OMPL_WARN("T%d-%d-%s", t, i, payload.c_str());
                else OMPL_INFORM("T%d-%d-%s", t, i, payload.c_str());
            }
        });
    for (auto &t : th) t.join();
    ompl::msg::setLogLevel(ompl::msg::LOG_NONE);
    ompl::msg::restorePreviousOutputHandler();
    std::multiset<std::string> got(rec.lines.begin(), rec.lines.end()), want;
    for (int t = 0; t < T; ++t)
        for (int i = 0; i < N; ++i)
            want.insert("T" + std::to_string(t) + "-" + std::to_string(i) + "-" + std::string(20 + (t * 7 + i) % 60, (char)('a' + (t + i) % 26)));
    sink.count("c19_log_lines", rec.lines.size());
    if (got != want)
        sink.viol("C19:log-exactly-once:Console", J().str("what", "logged messages do not arrive intact exactly once").i("got", got.size()).i("want", want.size()));
    sink.noteCase(hmix(caseSeed(a, c), T), true);
    sink.sample(J().str("kind", "C19 surface: concurrent logging").i("threads", T));
}

// terminate() from another thread while the polling thread of a periodic condition is inside the predicate (forced)
static void sTerminateInsidePredicate(Sink &sink, const Args &a, long c, Rng &rng)
{
    std::atomic<int> phase{0};
    std::atomic<bool> armed{false};
    auto pred = [&]() -> bool {
        if (armed.load(std::memory_order_acquire) && phase.load(std::memory_order_acquire) == 0)
        {
            phase.store(1, std::memory_order_release);
            for (int i = 0; i < 2000000 && phase.load(std::memory_order_acquire) != 2; ++i) sched_yield();
        }
        return false;
    };
    const double period = rng.logUni(2e-4, 5e-3);
    long falseAfter = 0, evals = 0;
    bool entered = false;
    {
        ob::PlannerTerminationCondition ptc(pred, period);
        armed.store(true, std::memory_order_release);
        for (int i = 0; i < 2000000 && phase.load(std::memory_order_acquire) != 1; ++i) sched_yield();
        entered = phase.load(std::memory_order_acquire) == 1;
        if (entered)
        {
            std::thread t([&] {
                ptc.terminate();
                phase.store(2, std::memory_order_release);
            });
            t.join();
            int E = 1 + rng.ui(4);
            std::vector<std::thread> th;
            std::atomic<long> fa{0}, ev{0};
            for (int k = 0; k < E; ++k)
                th.emplace_back([&] {
                    for (int i = 0; i < 3000; ++i)
                    {
                        ++ev;
                        if (!ptc.eval()) ++fa;
                        if (i % 64 == 0) usleep(50);
                    }
                });
            for (auto &x : th) x.join();
            falseAfter = fa;
            evals = ev;
        }
    }
    sink.count("c19_ptc_evaluations", evals);
    sink.count("c19_terminate_inside_predicate_cases");
    if (!entered) sink.inconclusive("poller-never-entered-predicate");
    else if (falseAfter)
        sink.viol("C19:terminate-not-visible:PlannerTerminationCondition", J().str("what", "evaluation false after terminate() from another thread had returned (it arrived while the polling thread was inside the predicate)").i("n", falseAfter).num("period", period));
    sink.noteCase(hmix(caseSeed(a, c), 77), entered);
}

static void sTerminate(Sink &sink, const Args &a, long c, Rng &rng)
{
    if (rng.ui(4) == 0)
    {
        sTerminateInsidePredicate(sink, a, c, rng);
        return;
    }
    int mode = rng.ui(3);  // 0 predicate form, 1 periodic form, 2 or-combination
    std::atomic<bool> pred{false};
    ob::PlannerTerminationCondition base = mode == 1 ? ob::PlannerTerminationCondition([&] { return pred.load(); }, 0.002) : ob::PlannerTerminationCondition([&] { return pred.load(); });
    ob::PlannerTerminationCondition ptc = mode == 2 ? ob::plannerOrTerminationCondition(base, ob::plannerNonTerminatingCondition()) : base;
    std::atomic<bool> requested{false}, stop{false};
    std::atomic<long> evals{0}, falseAfter{0};
    int E = 1 + rng.ui(6);
    Barrier bar(E + 1);
    std::vector<std::thread> th;
    for (int t = 0; t < E; ++t)
        th.emplace_back([&] {
            bar.wait();
            while (!stop.load(std::memory_order_acquire))
            {
                bool ordered = requested.load(std::memory_order_acquire);  // terminate() had returned before this load
                bool v = ptc.eval();
                ++evals;
                if (ordered && !v) ++falseAfter;
            }
        });
    std::thread term([&] {
        bar.wait();
        usleep(200 + rng.ui(3000));
        // terminate() is requested on the base condition (mode 2: the or-combination must reflect it)
        base.terminate();
        requested.store(true, std::memory_order_release);
        usleep(3000);
        stop.store(true, std::memory_order_release);
    });
    for (auto &t : th) t.join();
    term.join();
    sink.count("c19_ptc_evaluations", evals);
    if (falseAfter.load())
        sink.viol("C19:terminate-not-visible:PlannerTerminationCondition", J().str("what", "an evaluation ordered after terminate() returned false").i("n", falseAfter).i("mode", mode));
    sink.noteCase(hmix(caseSeed(a, c), E * 3 + mode), true);
    sink.sample(J().str("kind", "C19 surface: terminate() from another thread").i("evaluating_threads", E).i("mode", mode));
}

// ------------------------------------------------------------------------------------------------------
// (B) multi-threaded planners
// ------------------------------------------------------------------------------------------------------
static const char *MT_PLANNERS[] = {"pRRT", "pSBL", "CForest", "PRM", "PRMstar", "SPARS", "SPARStwo", "AnytimePathShortening", "RRTConnect+GoalLazySamples"};
static const int N_MT = 9;

static void sPlanner(Sink &sink, const Args &a, long c, int which, Rng &rng)
{
    std::string name = MT_PLANNERS[which];
    bool lazyGoal = which == 8;
    const PInfo &pi = *findPlanner(lazyGoal ? "RRTConnect" : name);
    sink.subject(name);
    long widx = (c / 64) % 3;
    static const int KINDS[] = {K_R2, K_SE2, K_R3};
    uint64_t wseed = hmix(hmix(splitmix(a.seed), 0xC19), widx);
    ompl::RNG::setSeed(caseSeed(a, c, 1) % 1000000000ULL + 1);
    auto w = makeWorld(wseed, KINDS[widx], false);
    w->rangeMode = 0;
    OracleCtx ctx{sink, *w, pi, "C19", "solution-", nullptr};
    ctx.goalSetGrows = lazyGoal;
    auto pdef = makePdef(*w);
    std::shared_ptr<ob::GoalLazySamples> lazy;
    if (lazyGoal)
    {
        // goal states are produced by the goal's own sampling thread while the planner reads them
        World *wp = w.get();
        auto gen = std::make_shared<Rng>(caseSeed(a, c, 9));
        std::vector<double> g = w->goals[0];
        lazy = std::make_shared<ob::GoalLazySamples>(
            w->si,
            [wp, gen, g](const ob::GoalLazySamples *gls, ob::State *st) {
                std::vector<double> r = g;
                r[0] += gen->uni(-0.15, 0.15);
                r[1] += gen->uni(-0.15, 0.15);
                wp->space->copyFromReals(st, r);
                wp->space->enforceBounds(st);
                usleep(50);
                return gls->getStateCount() < 40;
            },
            false);
        lazy->setThreshold(w->threshold);
        pdef->setGoal(lazy);
    }
    // every third case is cut short: that is where the workers' approximate-solution bookkeeping (best distance and the node it
    // belongs to, updated by several workers at once) decides what is reported; such runs are cheap, so the case repeats them
    // with fresh planners, budgets and perturbation seeds
    const bool cutShort = (c / (6 + N_MT)) % 3 == 1;
    const int reps = cutShort && !lazyGoal ? 10 : 1;
    uint64_t sig = 0;
    long events = 0;
    bool perturb = false;
    for (int rep = 0; rep < reps; ++rep)
    {
        if (rep > 0) pdef = makePdef(*w);
        ob::PlannerPtr planner;
        try
        {
            planner = makePlanner(pi, *w, rng);
            planner->setProblemDefinition(pdef);
            planner->setup();
        }
        catch (const std::exception &)
        {
            sink.count("setup_threw:" + name);
            sink.noteCase(0, false);
            return;
        }
        perturb = rng.ui(8) != 0;
        // a third of the full-budget cases continue on the same planner instance: 1-2 further solve() calls, half of them after
        // clearSolutionPaths() (the roadmap planners' solution thread then finds a path in the existing roadmap at once, while the
        // roadmap thread is still starting up), the others with a short budget that does not stop at the held solution
        const int ncalls = (!cutShort && rng.ui(3) == 0) ? 2 + (int)rng.ui(2) : 1;
        for (int call = 0; call < ncalls; ++call)
        {
        hook::arm(hmix(hmix(caseSeed(a, c, 7), rep), call), perturb);
        if (lazy) lazy->startSampling();
        long budget = std::max(300L, (long)pi.budget / 2);
        if (cutShort) budget = (long)rng.logUni(8, 250);
        bool stopOnExact = !pi.optimizing;
        if (call > 0)
        {
            if (rng.coin()) pdef->clearSolutionPaths();
            else
            {
                stopOnExact = false;
                budget = (long)rng.logUni(20, 600);
            }
            sink.count("c19_planner_continued_solves");
            sink.count("c19_planner_continued_solves:" + name);
        }
        const size_t solsBefore = pdef->getSolutionCount();
        EvalPTC e(budget, stopOnExact, pdef);
        ob::PlannerStatus st;
        bool threw = false;
        try
        {
            st = planner->solve(e.ptc);
        }
        catch (const std::exception &ex)
        {
            threw = true;
            sink.count("solve_threw:" + name);
        }
        if (lazy) lazy->stopSampling();
        events = 0;
        sig = hook::signature(events);
        if (!threw)
        {
            auto sols = pdef->getSolutions();
            bool solStatus = (bool)st;
            if (solStatus && sols.empty()) ctx.viol("status-without-path", ctx.detail("solution status but the problem definition holds no solution path"));
            if (!solStatus && sols.size() > solsBefore) ctx.viol("nonsolution-added-path", ctx.detail("non-solution status but a path was added").i("added", sols.size() - solsBefore).i("call", call));
            if (st == ob::PlannerStatus::EXACT_SOLUTION && !pdef->hasExactSolution()) ctx.viol("exact-status-no-exact-solution", ctx.detail("status EXACT_SOLUTION but no exact solution is held"));
            for (auto &s : sols) checkSolution(ctx, s, pdef->getGoal());
            for (size_t k = 1; k < sols.size(); ++k)
                if (orderedBefore(sols[k], sols[k - 1]))
                {
                    ctx.viol("ranking", ctx.detail("solutions of the multi-threaded planner are not in the stated order"));
                    break;
                }
            if (!sols.empty()) sink.count("c19_planner_solved:" + name);
            if (!sols.empty() && sols[0].approximate_) sink.count("c19_planner_approximate:" + name);
            if (cutShort) sink.count("c19_planner_runs_cut_short");
            sink.count("c19_planner_runs:" + name);
            if (e.after > 64 + 16 * 8) ctx.viol("evaluations-after-termination", ctx.detail("kept evaluating the termination condition after it fired").i("after", e.after));
        }
        sink.count("c19_yield_events", events);
        emitSig(a, name, sig, events);
        if (threw) break;
        }
    }
    sink.noteCase(hmix(sig, hashStr(name)), events > 0 || lazyGoal);
    sink.sample(J().str("kind", "C19 multi-threaded planner run").str("planner", name).str("space", KIND_NAME[w->kind]).b("perturbed", perturb).b("cut_short", cutShort).i("yield_events", events).str("signature", std::to_string(sig)), 4);
}

static void runCase(Sink &sink, const Args &a, long c)
{
    Rng rng(caseSeed(a, c));
    const int NS = 6 + N_MT;
    int s = c % NS;
    switch (s)
    {
        case 0:
            sink.subject("surface:checkMotion");
            sMotion(sink, a, c, rng);
            break;
        case 1:
            sink.subject("surface:GNAT");
            sGnat(sink, a, c, rng);
            break;
        case 2:
            sink.subject("surface:create");
            sCreate(sink, a, c, rng);
            break;
        case 3:
            sink.subject("surface:ProblemDefinition");
            sPdef(sink, a, c, rng);
            break;
        case 4:
            sink.subject("surface:logging");
            sLog(sink, a, c, rng);
            break;
        case 5:
            sink.subject("surface:terminate");
            sTerminate(sink, a, c, rng);
            break;
        default:
            sPlanner(sink, a, c, s - 6, rng);
    }
    sink.count(std::string("c19_scenario_") + std::to_string(s));
}

int main(int argc, char **argv)
{
    Args a = parseArgs(argc, argv);
    ompl::msg::setLogLevel(ompl::msg::LOG_NONE);
    Sink sink(a);
    if (a.prop != "C19")
    {
        fprintf(stderr, "h_threads serves C19 only\n");
        return 2;
    }
    long total = (long)((6 + N_MT) * (a.thorough() ? 1200 : 150) * a.scale);
    for (long c = 0; c < total; ++c)
    {
        if (!mine(a, c) || !sink.wanted(c)) continue;
        sink.begin(c);
        runCase(sink, a, c);
    }
    sink.done();
    return 0;
}
