# fragment loaded by props.py (reg, ENGINES, POST, CRASHKEY, NOT_CLAIMED are injected)
ENGINES['h_motion'] = ('C++ harness: (C05) the motion validators the library installs by default (Discrete, Dubins, '
                       'Reeds-Shepp; Dubins3D opt-in) against a reference model built from validSegmentCount + interpolate '
                       'under recording validity predicates, plus the state-list helpers of SpaceInformation; (C14) Dubins / '
                       'symmetric Dubins / Reeds-Shepp distance and interpolation against an independent geometric six-word '
                       'solver whose candidates are certified by integration, and a vehicle-model polyline oracle; '
                       'ASan+UBSan build')

_PAIRS = ['random', 'identical', 'near', 'ksegments', 'bound-to-bound', 'seam', 'antipodal']
_SPACES = ['Rn', 'SO2', 'SO3', 'SE2', 'SE3', 'Compound', 'Dubins', 'DubinsSym', 'ReedsShepp']


def _c05(k):
    f = {'c05_calls': 900000 * k, 'c05_counter_checks': 900000 * k, 'c05_preds_invalid_at_j': 200000 * k,
         'c05_pairs_exhaustive_j': 5000, 'c05_expected_valid': 35000, 'c05_expected_invalid': 250000 * k,
         'c05_first_invalid_is_p1': 19000, 'c05_first_invalid_is_last_interior': 12000, 'c05_first_invalid_is_end': 15000,
         'c05_lastvalid_checks': 500000 * k, 'c05_lastvalid_state_checks': 400000 * k, 'c05_untouched_checks': 90000,
         'c05_alias_rounds': 90000, 'c05_form_agreement_checks': 300000 * k, 'c05_statelist_calls': 350000,
         'c05_statelist_invalid_lists': 100000, 'c05_motionstates_calls': 10000, 'c05_pairs_nd0': 1000, 'c05_pairs_nd1': 500,
         'c05_pairs_nd_ge2': 8000, 'c05_pred_halfspace': 30000, 'c05_pred_hash': 30000, 'c05_pred_ball-in': 10000,
         'c05_pred_ball-out': 9000, 'c05_validator_DiscreteMotionValidator': 6000, 'c05_validator_DubinsMotionValidator': 2000,
         'c05_validator_ReedsSheppMotionValidator': 1200}
    for p in _PAIRS:
        f['c05_pair_' + p] = 1000
    for s in _SPACES:
        f['c05_space_' + s] = 400
    return f


reg('C05', engine='h_motion',
    rule='one case = one space (R^1..R^6, SO(2), SO(3), SE(2), SE(3), random nested weighted compound incl. Discrete and '
         'zero-weight components, Dubins, symmetric Dubins, Reeds-Shepp; random bounds and turning radius) with resolution '
         '0.1%..30% and segment-count factor 1..4, one pair of states (random / identical / closer than one segment / k segments '
         'apart / bound-to-bound / across the +-pi seam / antipodal) and a family of pure validity predicates over it: '
         '"invalid exactly at subdivision point j" for every j in 1..nd (exhaustive while nd^2 fits the work budget: nd <= ~150 '
         'quick, ~520 thorough for cheap spaces; otherwise j = 1,2,3, nd/4, nd/2-1..nd/2+1, 3nd/4, nd-2..nd plus random j), all valid, '
         'random point sets, hash-random sets at 0.3%/4%/30%, chart half-spaces, metric balls; every predicate is run through '
         'checkMotion(a,b) and checkMotion(a,b,lastValid) (a subset also with lastValid.first = nullptr, aliasing s1, aliasing s2), '
         'then getMotionStates + both state-list checkMotion forms with "invalid exactly at index i"; non-trivial = nd >= 2; '
         'distinct = distinct (space, resolution, nd, a, b) hash',
    floors={'quick': _c05(1), 'thorough': _c05(3)},
    level_text='for every generated (space, resolution, factor, pair, predicate) both forms of the installed default validator '
               'returned exactly valid(b) and all valid(interpolate(a,b,j/nd)); on failure the fraction was in [0,1), the state was '
               'interpolate(a,b,fraction) (also when the storage aliased s1 or s2 or was null) and fraction was the last valid grid '
               'point; on success storage and fraction were bit-identical to before; exactly the matching counter advanced by one '
               'per call; the state-list helpers returned all-valid / the least invalid index',
    technique='runtime monitoring: reference model + recording validity predicates over generated inputs, under ASan+UBSan',
    assumptions=['the start state is valid under every generated predicate (documented precondition of checkMotion)',
                 'predicates are pure functions of the state; "the subdivision point p_j" is interpolate(a,b,j/nd) compared with '
                 'equalStates; a verdict mismatch whose call queried a state that equals no reference point would be inconclusive '
                 '(c05-offgrid-query; never observed)',
                 'the returned last-valid state must equalStates the reference or lie within 1e-9*(1+extent) of it (DESIGN 2.4)',
                 'which states are queried and how often is a statistic (c05_queries*), not a verdict',
                 'the Dubins3D validators (Owen / Vana / VanaOwen spaces) are exercised only with --dubins3d 1: every path query '
                 'of those spaces trips UBSan\'s vptr check in DubinsStateSpace::dubins(state1, state2, radius) '
                 '(DubinsStateSpace.cpp:862) and aborts the shard in the asan variant'])

_MODES = ['far', 'ccc-region', 'same-position', 'collinear', 'quadrant-boundary', 'longpath-boundary', 'straight-ahead',
          'straight-behind', 'random', 'near-coincident', 'pure-arc']


def _c14(k):
    f = {'c14_pairs': 13000 * k, 'c14_six_word_checks': 38000 * k, 'c14_ref_candidates_certified': 150000 * k,
         'c14_polylines': 38000 * k, 'c14_polyline_steps': 45000000 * k, 'c14_length_checks': 38000 * k,
         'c14_end_pose_checks': 75000 * k, 'c14_euclid_checks': 38000 * k, 'c14_symmetry_checks': 25000 * k,
         'c14_rs_le_dubins_checks': 12000 * k, 'c14_prefix_checks': 50000 * k, 'c14_long_path_classified': 8000 * k,
         'c14_short_path_exhaustive': 4500 * k, 'c14_symmetric_reversed_curves': 5000 * k, 'c14_rs_curves_with_reversal': 6500 * k,
         'c14_coincident_pairs': 500 * k, 'c14_pairs_in_snap_band': 500 * k}
    for m in _MODES:
        f['c14_mode_' + m] = 1000 * k
    for w in ['LSL', 'RSR', 'RSL', 'LSR', 'RLR', 'LRL']:
        f['c14_dubins_word_' + w] = 900 * k
    for t in range(18):
        f['c14_rs_type_%d' % t] = 90 * k
    return f


reg('C14', engine='h_motion',
    rule='one case = one turning radius in [0.1,10] and one pose pair from 11 generators (far apart 4-12 rho, CCC region < 4 rho, '
         'same position, collinear with headings along/against the line, relative headings on and within 1e-9/1e-6/1e-3 of the '
         'multiples of pi/2 that bound the 16-class table, separation on and within 1e-9..1e-3 of the isLongPath boundary, straight '
         'ahead / straight behind at 1e-4..3 rho with identical heading, uniform random, near-coincident 1e-8..1e-4, goals on the '
         'start\'s own turning circles) at position magnitudes 0..20 (x rho); all eight clauses on Dubins, symmetric Dubins and '
         'Reeds-Shepp with 400-2000 interpolation samples per curve and 3 prefix points; non-trivial = poses not coincident '
         '(>= 1e-5 rho or >= 1e-5 rad apart); distinct = distinct (rho, a, b) hash',
    floors={'quick': _c14(1), 'thorough': _c14(8)},
    level_text='for every generated pair the library\'s Dubins distance equalled the shortest of the six words found by an '
               'independent circle-tangent construction (each candidate certified by integrating it to the goal) within '
               '1e-5*rho*(1+len); every sampled step of every curve was an arc of the configured radius or straight (<= 2 / <= 4 '
               'switch samples), never faster than the turning rate, forward-only for Dubins; curves ended at the goal, had the '
               'reported arc length, were never shorter than the straight line; symmetric variants were symmetric; Reeds-Shepp never '
               'exceeded Dubins; distances to prefix points were t times the total',
    technique='runtime monitoring: independent solver + vehicle-model polyline oracle over generated pose pairs, under ASan+UBSan',
    assumptions=['tolerance 1e-5*rho*(1+length/rho) (10 x DUBINS_EPS = RS_EPS, DESIGN 2.4); per-step heading slack 1e-5 rad, per-step '
                 'position slack 1e-9*(1+|coordinates|+length)',
                 'poses closer than 1e-5 rho and 1e-5 rad are coincident: only "Dubins distance <= tol or equal to the six-word value" '
                 'is required of them; prefix points coincident with the start are skipped',
                 'declared-resolution band: arcs within 1e-6 of a full turn may count as zero and inner tangents between circles '
                 'overlapping by < 1e-6 may count as touching (the library snaps both); a library value is a violation only if it is '
                 'above the shortest exactly certified word or below the shortest word admitted at that resolution; inside the band '
                 'Reeds-Shepp is compared with the certified exact Dubins length',
                 'prefix optimality is decided for plain Dubins and Reeds-Shepp; the symmetrised Dubins distance is a minimum of two '
                 'direction-dependent lengths and does not have the property by construction',
                 'optimality of Reeds-Shepp itself is only bounded from above (by Dubins) and cross-checked through symmetry and '
                 'prefix consistency; there is no independent 48-word Reeds-Shepp solver'])
