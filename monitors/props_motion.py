ENGINES['h_motion'] = 'C++ harness: motion validators vs reference model; Dubins / Reeds-Shepp curves vs independent solver (draft)'
reg('C05', engine='h_motion', rule='draft', floors={'quick': {}, 'thorough': {}})
reg('C14', engine='h_motion', rule='draft', floors={'quick': {}, 'thorough': {}})
