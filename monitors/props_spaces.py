"""Engine h_spaces: C06 (metric laws), C07 (interpolation), C08 (bounds enforcement, samplers, valid-state samplers)."""
ENGINES['h_spaces'] = ('C++ harness: zoo of state spaces (R^n incl. zero-width / 1e6-wide / negative bounds, SO2, SO3, SE2, SE3, Time '
                       'bounded+unbounded, Discrete, Torus, Sphere, Mobius, KleinBottle, Dubins +-symmetric, ReedsShepp, Wrapper, random '
                       'nested weighted compounds of depth <= 3) x adversarial state generators (corners, seam pairs, antipodal '
                       'quaternions, coincident / nearly coincident states, collinear and seam-straddling triples, sampler output); '
                       'closed-form oracles with the tolerance policy of DESIGN 2.4; violations attributed to the deepest responsible '
                       'component space; ASan+UBSan build')

_ZOO = ['RealVector', 'RealVectorZeroWidth', 'RealVectorHuge', 'SO2', 'SO3', 'SE2', 'SE3', 'Time', 'TimeUnbounded', 'Discrete',
        'Torus', 'Sphere', 'Mobius', 'KleinBottle', 'Dubins', 'DubinsSymmetric', 'ReedsShepp', 'Wrapper', 'Compound']
_ASSUME = ['tolerances are those of DESIGN 2.4 (1e-9 relative to the extent; SO(3) 1e-4 per component; Sphere 1e-3*radius; '
           'Dubins/Reeds-Shepp 1e-5*rho*(1+length); RealVector/Time bounds + 4 ulp of the bounds\' magnitude), weighted through compounds',
           'wrappers around compound-type spaces are only used at the root: as a component of a compound they make '
           'StateSpace::setup() down-cast a WrapperStateSpace to CompoundStateSpace (C06 case 0 is the probe for that)']


def _per_kind(prefix, n):
    return {prefix + k: n for k in _ZOO}


reg('C06', engine='h_spaces',
    rule='one case = one freshly built space of the zoo (kind = case index mod 23, 5 of 23 slots are random nested weighted '
         'compounds; parameters random) and 300-2000 generated in-bounds triples (a,b,c) in a random relation (independent, '
         'coincident, nearly coincident, seam/corner, antipodal, from the samplers; c independent / collinear / near a / near b / '
         'far) plus one clearly separated pair for strict positivity, one antipodal-identification pair (quaternions negated exactly) and '
         'the library-produced pairs interpolate(a,b,1)~b, interpolate(a,b,0)~a for "distance 0 => equalStates"; all 7 directed distances '
         'evaluated; second phase (spaces with a RealVector/Time/Discrete component or a weighted compound): after setup() the bounds of a '
         'component are enlarged x3..10 or a subspace weight is raised directly on the component, optionally setup() again, and 20-300 more '
         'triples (corner-heavy) are checked against the live extent / weighted sum; non-trivial = >= 50 triples evaluated; distinct = '
         'distinct (space signature, seed) hash',
    floors={'quick': dict({'c06_triples': 8000000, 'c06_triangle_checks': 40000000, 'c06_symmetry_checks': 20000000,
                           'c06_extent_checks': 40000000, 'c06_positivity_checks': 8000000, 'c06_compound_sum_checks': 6000000,
                           'c06_pairs_seam_or_corner': 1500000, 'c06_pairs_antipodal': 1200000, 'c06_pairs_coincident': 500000,
                           'c06_pairs_nearly_coincident': 800000, 'c06_triples_collinear': 1500000, 'c06_pairs_from_samplers': 700000,
                           'c06_compound_height_3': 300, 'c06_compound_with_zero_weight': 300,
                           # representation-equivalent / zero-distance pairs (q vs -q, library-produced pairs)
                           'c06_antipodal_identification_checks': 2500000, 'c06_zero_distance_leaf_pairs_examined': 60000000,
                           'c06_library_produced_pairs_checked': 25000000,
                           # re-parameterisation history phase
                           'c06_history_cases': 5000, 'c06_history_triples': 700000, 'c06_history_extent_checks': 3500000,
                           'c06_history_cases_bounds_enlarged': 4000, 'c06_history_cases_weight_raised': 1000,
                           'c06_history_cases_no_second_setup': 3000, 'c06_history_cases_wrapper_root': 200,
                           'c06_history_cases_compound_root': 1500, 'c06_history_cases_target_under_wrapper_no_second_setup': 200},
                          **_per_kind('c06_cases_', 250)),
            'thorough': dict({'c06_triples': 40000000, 'c06_triangle_checks': 200000000, 'c06_compound_sum_checks': 30000000,
                              'c06_antipodal_identification_checks': 12000000, 'c06_history_triples': 3500000,
                              'c06_history_cases_target_under_wrapper_no_second_setup': 1000, 'c06_history_cases_weight_raised': 5000},
                             **_per_kind('c06_cases_', 1500))},
    level_text='d>=0, d(x,x)=0, d>0 on clearly separated pairs, d<=getMaximumExtent(), symmetry where claimed, triangle inequality where '
               'isMetricSpace() is claimed, compound distance == weighted sum recomputed from the components: held on every generated '
               'triple of every generated space of the zoo (adversarial seam / antipodal / coincident / collinear inputs included)',
    technique='runtime monitoring: closed-form metric oracles over generated spaces and adversarial states under ASan+UBSan',
    assumptions=_ASSUME + ['strict positivity is decided on pairs displaced by 1e-6..1e-2 of the coordinate range in a positive-weight '
                           'component (DESIGN 2.4); "distance exactly 0 => equalStates" is decided leaf by leaf (RealVector, SO2, SO3, Time, '
                           'Discrete components), SO2 pairs straddling the seam at distance 0 are exempt and only counted',
                           're-parameterisation history: bounds / weights are changed through the component\'s own setBounds / '
                           'setSubspaceWeight after setup(); components of Sphere / Mobius / KleinBottle (fixed charts) are not touched',
                           'the extent clause is not applied to spaces containing an unbounded TimeStateSpace (documented placeholder extent 1)'])

reg('C07', engine='h_spaces',
    rule='one case = one freshly built space of the zoo (as C06) and 200-1000 generated in-bounds pairs; per pair t=0, t=1, three t '
         'from {1/2, k/nd, 1 ulp from 0 and from 1, 1/4, 3/4, random} for the bounds / aliasing / constant-speed clauses and two (s,u) for '
         're-parameterisation; non-trivial = >= 50 pairs; distinct = distinct (space signature, seed) hash',
    floors={'quick': dict({'c07_pairs': 3000000, 'c07_endpoint_checks': 6000000, 'c07_bounds_checks': 8000000, 'c07_alias_checks': 16000000,
                           'c07_reparam_checks': 5000000, 'c07_constant_speed_checks': 5000000, 'c07_pairs_seam_or_corner': 800000,
                           'c07_pairs_antipodal': 450000, 'c07_pairs_coincident': 150000, 'c07_pairs_nearly_coincident': 280000},
                          **_per_kind('c07_cases_', 200)),
            'thorough': dict({'c07_pairs': 15000000, 'c07_reparam_checks': 25000000}, **_per_kind('c07_cases_', 1200))},
    level_text='interpolate(a,b,0)=a, (a,b,1)=b, interpolants in bounds (Dubins/Reeds-Shepp: heading), output aliasing from / to gives the '
               'non-aliased result, re-parameterisation consistency away from cut loci (Dubins family on lengths, Discrete within 1), '
               'd(a,p_t)=t*d(a,b) for the geodesic spaces: held on every generated pair of every generated space',
    technique='runtime monitoring: interpolation oracles over generated spaces and adversarial pairs under ASan+UBSan',
    assumptions=_ASSUME + ['re-parameterisation is not decided for pairs within 1e-6 of a cut locus (SO2 components pi apart, |q.q\'|<1e-6, '
                           'Klein branch switch / mirrored circle) nor for Dubins-family pairs closer than 10*DUBINS_EPS; counted as skipped'])

reg('C08', engine='h_spaces',
    rule='23 of 30 case slots: one freshly built space of the zoo and 600-1200 rounds of {enforceBounds on an in-bounds state, on a wild '
         'finite state (twice), sampleUniform / sampleUniformNear / sampleGaussian of the default (compound, wrapper) sampler and of up to '
         'two subspace samplers with in-bounds centres and distance in {0,1e-12..100*extent}}; 7 of 30 slots: one space, one predicate '
         '(all valid, all invalid, disc obstacle, thin heading-dependent slab, random cells) and 40-120 sample/sampleNear calls on each of the '
         'six valid-state samplers; case 0 probes distance >= 2^31 reaching a DiscreteStateSampler; non-trivial = >= 50 calls',
    floors={'quick': dict({'c08_enforce_inbounds_inputs': 5000000, 'c08_enforce_wild_inputs': 5000000, 'c08_sample_uniform': 5000000,
                           'c08_sample_near': 5000000, 'c08_sample_gaussian': 5000000, 'c08_subspace_sampler_calls': 5000000,
                           'c08_compound_sampler_calls': 2500000, 'c08_wrapper_sampler_calls': 600000, 'c08_zero_distance_calls': 250000,
                           'c08_distance_ge_10_extents_calls': 800000, 'c08_valid_sample_calls': 450000, 'c08_valid_sampleNear_calls': 450000,
                           'c08_valid_ok_uniform': 100000, 'c08_valid_ok_gaussian': 30000, 'c08_valid_ok_obstacle_based': 30000,
                           'c08_valid_ok_bridge_test': 5000, 'c08_valid_ok_max_clearance': 100000, 'c08_valid_ok_min_clearance': 100000,
                           'c08_valid_cases_pred_all_valid': 250, 'c08_valid_cases_pred_all_invalid': 250, 'c08_valid_cases_pred_disc': 250,
                           'c08_valid_cases_pred_slab': 250, 'c08_valid_cases_pred_random': 250},
                          **_per_kind('c08_cases_', 200)),
            'thorough': dict({'c08_enforce_wild_inputs': 30000000, 'c08_sample_near': 30000000, 'c08_valid_sample_calls': 2500000},
                             **_per_kind('c08_cases_', 1200))},
    level_text='enforceBounds leaves in-bounds states equal, maps every generated finite state into bounds and is idempotent; every output of '
               'sampleUniform / sampleUniformNear / sampleGaussian (default, compound, subspace, wrapper samplers) satisfies the bounds; '
               'every state returned with success by the six valid-state samplers is in bounds and valid under the re-evaluated predicate',
    technique='runtime monitoring: bounds / sampler oracles over generated spaces, wild inputs and predicates under ASan+UBSan',
    assumptions=_ASSUME + ['sampling distances reaching a DiscreteStateSampler are capped at 1e9 except in the probe case 0 (int conversion)',
                           'states returned by ObstacleBased / BridgeTest samplers are interpolants: on Dubins / Reeds-Shepp spaces they are '
                           'judged on the heading like every interpolant (DESIGN C07)'])
