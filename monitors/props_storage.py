"""C09 (engine h_storage): state / planner-data copies and persistence, corruption fault enumeration."""
ENGINES['h_storage'] = ('C++ harness: generated state spaces (zoo + random nested compounds with wrapped and zero-length members), '
                        'adversarial states, random planner-data graphs (geometric and control); copy / serialize / reals / '
                        'partial-copy round trips and store->load round trips compared bitwise against an independent walk of the '
                        'space tree and a snapshot of the stored graph; every truncation length of each stored stream, damaged '
                        'markers and foreign signatures fed back to the loaders under a log-capturing OutputHandler; ASan+UBSan build')
reg('C09', engine='h_storage', level='exploration',
    rule='one case = one generated space (or pair of related spaces / one random PlannerData of 0-300 vertices) with its '
         'round trips and, for the storage kinds, the complete corruption enumeration of the stream it produced; kinds rotate '
         '3:2:4:5:2 (state round trips : partial copies : StateStorage : PlannerDataStorage : control::PlannerDataStorage); '
         'non-trivial = space with at least one leaf / related pair with a common component / at least one stored state / at '
         'least one stored vertex; distinct = distinct (space signature, stream bytes) hash',
    floors={'quick': {'c09_states': 9000, 'c09_partial_copies': 1000, 'c09_partial_expected_ALL': 20, 'c09_partial_expected_SOME': 18,
                      'c09_partial_expected_NO': 5, 'c09_ss_roundtrips': 100, 'c09_ss_streams_with_metadata': 40,
                      'c09_pd_roundtrips': 180, 'c09_pd_graphs_control': 50, 'c09_pd_graphs_storing_start_and_goal_vertex': 25,
                      'c09_pd_graphs_goal_marks_out_of_order': 50, 'c09_pd_graphs_multi_start': 75,
                      'c09_pd_graphs_with_removed_vertices': 90, 'c09_pd_loads_into_used_planner_data': 40,
                      'c09_truncation_offsets': 450000, 'c09_streams_truncated_exhaustively': 250,
                      'c09_streams_truncated_strided': 30, 'c09_wrong_marker_loads': 3500, 'c09_foreign_signature_loads': 340,
                      'c09_spaces_with_zero_length_member': 8, 'c09_spaces_with_wrapper': 18, 'c09_spaces_nested_depth_3': 4},
            'thorough': {'c09_states': 36000, 'c09_partial_copies': 4000, 'c09_ss_roundtrips': 400, 'c09_pd_roundtrips': 720,
                         'c09_pd_graphs_control': 200, 'c09_pd_graphs_storing_start_and_goal_vertex': 100,
                         'c09_truncation_offsets': 1800000, 'c09_streams_truncated_exhaustively': 1000,
                         'c09_streams_truncated_strided': 120, 'c09_wrong_marker_loads': 14000, 'c09_foreign_signature_loads': 1360,
                         'c09_spaces_with_zero_length_member': 32, 'c09_spaces_with_wrapper': 72, 'c09_spaces_nested_depth_3': 16}},
    level_text='exploration: seeded random generation of spaces, states and graphs for the round-trip clauses (no completeness '
               'claim over spaces or graphs); fault enumeration for the corruption clause: for every generated stream of at most '
               '8 KB EVERY truncation length 0..n-1 is fed to the loader (longer streams: every length in the header and tail '
               'plus a stride and random lengths), plus 11-12 damaged-marker variants and a foreign-signature load per stream',
    technique='model-based round-trip comparison + exhaustive truncation fault injection under ASan/UBSan',
    assumptions=['bitwise comparison of serialization images and reals (DESIGN 2.4: values the library only copies)',
                 'SO(3) states are unit quaternions, SO(2) angles lie in [-pi, pi]; NaN components are not generated',
                 'related spaces share components by name and same name means same structure (the generator guarantees it); '
                 'space sums that repeat a component name are skipped for ScopedState operator^',
                 'WrapperStateSpace is exercised as a top-level space and around non-compound members only (it forwards '
                 'isCompound() but is not a CompoundStateSpace)',
                 'PlannerDataStorage needs a SpaceInformation of dimension > 0, so zero-serialization-length spaces appear there '
                 'only as members of compounds',
                 'leaks on rejected loads are counted (c09_error_path_*), not judged',
                 'a StateStorage truncated inside its state block keeps the intact prefix: accepted as "not complete-looking" '
                 'when size() < stored count and an ERROR/WARN line was logged'])
