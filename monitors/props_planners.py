ENGINES['h_planners'] = ('C++ harness: all 46 geometric/multilevel planner variants on generated worlds (R2,R3,R6,SE2,SE3,weighted '
                         'compound,Dubins,Reeds-Shepp) under an evaluation-counting termination condition, state-counting '
                         'spaces and an independent solution oracle; ASan+UBSan (plain -O2 for volume)')
reg('C01', engine='h_planners',
    rule='one case = (planner, generated world); world = space kind, 0-10 fat obstacles (>= 4 resolution lengths thick), '
         'optional heading slab, start/goal sets (every third world: invalid / out-of-bounds / multiple starts and goals, '
         'GoalStates, non-sampleable goal region), threshold, range, resolution, segment factor; of every four worlds one is cut '
         'short (5-300 evaluations), one is cluttered with 20-45 small obstacles and one has a narrow passage (wall with a slit / '
         'window); a direction block adds rewiring planners on cluttered tight-turn Dubins worlds; non-trivial = a solution '
         'path with >= 3 states in a world with >= 1 obstacle was examined by the oracle; distinct = (world seed, planner, case seed)',
    floors={'quick': {'solutions_checked': 200, 'dense_samples': 200000, 'strict_rechecks': 1200},
            'thorough': {'solutions_checked': 1500}},
    case_timeout={'quick': 300, 'thorough': 600}, case_wall_max={'quick': 120, 'thorough': 600},
    level_text='every solution reported by every planner variant on the generated worlds is re-validated independently '
               '(start, bounds, goal/flag/status/difference agreement, dense invalid-stretch rule, strict checkMotion re-check)',
    technique='runtime monitoring: independent re-validation oracle over planner executions under ASan+UBSan')

reg('C03', engine='h_planners', extra_engines=['h_control'], level='fault_enumeration',
    rule='(geometric and multilevel planners: engine h_planners; the eight control-planner variants: engine h_control, same '
         'structure with k = 0..95 (thorough 0..383), a state- AND control-counting space and the step-wise replay oracle of C02 '
         'on every registered path) interruption part: one case = (planner, world, block of 16 consecutive k) with the termination condition first '
         'firing at evaluation k for EVERY k in 0..63 (thorough: 0..511) plus a geometric sample up to the budget and '
         'K1-2..K1+2 around the calibrated first-solution evaluation K1, a fresh planner per k, every 4th k followed by a '
         'resumed solve; history part: one case = (planner, generated history of 2-8 calls over solve / solve(0) / clear / '
         'clearQuery / new problem definition / getPlannerData / new query); all under the C01 oracle, a state-counting '
         'space and ASan; non-trivial = block or history with >= 2 calls',
    floors={'quick': {'c03_interrupted_solves': 8000, 'c03_resume_checks': 1500, 'leak_scopes_checked': 8000, 'c03_clear_checks': 60,
                      'c03c_interrupted_solves': 600, 'c03c_resume_checks': 140, 'c03c_leak_scopes_checked': 600,
                      'c03c_clear_checks': 14, 'c03c_histories': 26, 'c03c_paths_replayed': 750},
            'thorough': {'c03_interrupted_solves': 30000, 'c03c_interrupted_solves': 3000, 'c03c_histories': 130}},
    hang_is_violation=True,
    case_timeout={'quick': 40, 'thorough': 180},
    level_text='fault enumeration over the evaluation index at which the termination condition first fires (exhaustive for '
               'small k, sampled beyond) and exploration of call histories; oracle: status truthfulness, C01 solution oracle, '
               'bounded further evaluations, keep-or-improve on resume, no stale query end points, live-state accounting, ASan',
    technique='runtime monitoring: interruption-point enumeration + history generation under state-counting space and ASan')
reg('C04', engine='h_planners',
    rule='planner part: one case = (optimizing planner, objective in {path length, state-cost integral, mechanical work, '
         'max-min clearance, weighted multi-objective}, world) with 3-6 continued solve() calls (a third with a finite '
         'threshold); non-trivial = at least one stored cost was recomputed; ranking part: one case = synthetic multiset of '
         '1-200 solutions (ties, exact/approximate, min- and max-is-better objectives) added to a problem definition',
    floors={'quick': {'c04_costs_recomputed': 100, 'c04_flag_checks': 60, 'c04_monotone_checks': 80, 'c04_ranking_multisets': 2000},
            'thorough': {'c04_costs_recomputed': 1000}},
    case_timeout={'quick': 900, 'thorough': 1800},
    level_text='stored cost vs harness-recomputed true cost, admissible bound, flag vs threshold, monotone best cost across '
               'continued solves, stated ranking order on planner output and synthetic multisets',
    technique='runtime monitoring: cost recomputation oracle + ranking order checker under ASan+UBSan')
reg('C20', engine='h_planners', extra_engines=['h_control'], replicas={'quick': 3, 'thorough': 5},
    variants={'quick': ['asan', 'plain'], 'thorough': ['asan', 'plain', 'memcheck']},
    variant_scale={'memcheck': 0.025},   # valgrind: one world per planner + one RNG case
    rule='one case = one fresh process that sets the global seed and then either runs one single-threaded planner (geometric / '
         'multilevel: engine h_planners; the eight control-planner variants on three dynamical systems: engine h_control) on a '
         'generated world under an evaluation-count condition (fingerprint = status, every solution path byte for byte, '
         'evaluation count) or draws tables from 6 generators + samplers (fingerprint per generator); every case is executed '
         'in 3 (thorough: 5) separate processes with different environment size / allocator settings and the fingerprints '
         'must be identical (odd replicas run with MALLOC_PERTURB_ and one arena; variants asan and plain -O2); the thorough '
         'tier also runs one world per planner under valgrind memcheck and keys every uninitialised-value / invalid-access '
         'report; non-trivial = planner run that produced a solution (or an RNG case)',
    floors={'quick': {'c20_planner_runs_with_solution': 40, 'c20_fingerprints_compared': 300, 'c20_rng_cases': 4,
                      'c20c_planner_runs_with_solution': 28},
            'thorough': {'c20_fingerprints_compared': 1500}},
    case_timeout={'quick': 900, 'thorough': 1800},
    level_text='byte-level comparison of RNG streams and planner results across separate processes started with the same seed',
    technique='runtime monitoring: cross-process fingerprint comparison (differential replay) with allocator perturbation; '
              'thorough tier adds a valgrind memcheck pass (values depending on uninitialised memory)')


def _post_c20(run, shards, stats, fps, sanlog):
    compared = 0
    for (variant, name), byrep in sorted(fps.items()):
        vals = set(byrep.values())
        if len(byrep) < 2:
            continue
        compared += 1
        if len(vals) > 1:
            subj = name.split(':w')[0] if name.startswith('planner:') else ':'.join(name.split(':')[:1] + name.split(':')[2:])
            run.add_viol('C20:nondeterministic:' + subj, dict(name=name, variant=variant, fingerprints=byrep))
    stats['c20_fingerprints_compared'] = compared


POST['C20'] = _post_c20


def _crashkey_c03(key, shard, case):
    """a crash / hang while the planner works on a problem definition that was switched without clear() is a consequence of
    the same root cause as the wrong end points of that history: one key per planner (the history is flushed by the harness
    before every operation)"""
    info = getattr(shard, 'last_info', None)
    subj = getattr(shard, 'last_subject', None)
    if info and info.get('dirty_switch') and subj:
        return 'C03:stale-query-after-setProblemDefinition:' + subj
    return key


CRASHKEY['C03'] = _crashkey_c03
