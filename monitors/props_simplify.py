"""C17 (h_simplify) and C18 (h_ptc): path post-processing and termination conditions."""

ENGINES['h_simplify'] = ('C++ harness: generated fat-obstacle worlds over R2/R3/SE(2)/weighted compound/Dubins, valid input '
                         'paths (planner output, zig-zags, degenerate paths), every PathSimplifier / PathGeometric '
                         'densifier / PathHybridization routine applied to a fresh copy with drawn parameters and '
                         'objective, before/after oracle with dense re-validation; ASan+UBSan build')
ENGINES['h_ptc'] = ('C++ harness: scripted traces and reference models for every PlannerTerminationCondition kind '
                    '(predicate, or/and nestings, terminate(), iteration, timed, exact-solution, cost-convergence, '
                    'periodic thread) incl. two-thread scenarios; ASan+UBSan build, thread scenarios also under TSan')

reg('C17', engine='h_simplify',
    rule='one case = one generated world (space kind, resolution 0.5-2 %, 0-9 ball/box obstacles >= 4 resolution lengths '
         'thick, optional heading slab) + one input path that passes check() and the dense oracle (RRT/RRTConnect/KPIECE1 '
         'output under an evaluation-counting termination condition, zig-zag, long, 2-/3-state, repeated states, zero-length '
         'segments, total length 0, single state) + 12 routines and one hybridization applied to copies with parameters and '
         'objective (length / clearance / affine cost-field integral) drawn per application; non-trivial = input of >= 3 '
         'states in a world with >= 1 obstacle on which at least one routine changed the path; distinct = hash of the input '
         'path states and world',
    floors={'quick': {}, 'thorough': {}},
    level_text='Held on the executions produced: for every generated (world, valid input path, routine, parameters, '
               'objective) the before/after oracle of DESIGN 4/C17 found first/last state, dense validity, length/cost '
               'monotonicity, simplify()=>check(), densifier vertex/count/length and hybrid-cost clauses satisfied.',
    technique='runtime monitoring: before/after oracle with dense re-validation over generated paths under ASan+UBSan',
    assumptions=['obstacle features are >= 4 resolution lengths thick, so an unvalidated motion through an obstacle shows '
                 'as an invalid run > 2 resolution lengths while a correctly validated one cannot (DESIGN 4/C01)',
                 'cost-field objective is affine in the position (trapezoid rule exact, objective independent of how a curve '
                 'is cut into segments); clearance objective: minimum clearance along the curve evaluated by the oracle at 1/4 resolution; a '
                 'deterioration is a verdict beyond 3 resolution lengths (each accepted modification is decided by the '
                 'library on samples one resolution length apart of a 1-Lipschitz field), smaller ones are counted only',
                 'smoothBSpline is not run on the non-metric space (documented precondition); simplify() is not required '
                 'to shorten (it may repair), its length ratio is a statistic',
                 'the build does not enable -fsanitize=float-cast-overflow (not part of gcc -fsanitize=undefined): the '
                 'NaN->int cast in interpolate(count) on zero-length paths is reached (counter '
                 'c17_interpolate_count_zero_length_path) but not trapped'])

reg('C18', engine='h_ptc', variants={'quick': ['asan'], 'thorough': ['asan', 'tsan']},
    rule='one case = one generated history on one kind of termination condition (kind = fixed function of the case index): '
         'scripted predicate trace (1-500 steps) with terminate(); random or/and nesting (depth <= 5, <= 20 nodes, always/'
         'never leaves, copies) with terminate() from the evaluating or a second thread; a block of 25 iteration counts n '
         '(0..1000 in 41 blocks) directly with reset() and through the cast; a timed condition (5-300 ms, direct or '
         'polled); an exact-solution history on a problem definition; a cost sequence through the cost-convergence '
         'condition; a periodic condition over logical steps with copies, a second evaluating thread, terminate() and '
         'destruction; every evaluation is compared with the reference model; non-trivial = history of >= 2 steps',
    floors={'quick': {}, 'thorough': {}},
    level_text='Held on the executions produced: every evaluation of every generated termination-condition history agreed '
               'with the reference model of its kind (DESIGN 4/C18); timing clauses with 50 ms slack on the steady clock.',
    technique='runtime monitoring: reference models over scripted traces, logical-step monitor for the periodic thread; '
              'ASan+UBSan, thread scenarios also under TSan',
    assumptions=['cross-thread terminate() is ordered through a harness atomic (release/acquire); evaluations that overlap '
                 'the call may see either state (the race on the flag itself is C19)',
                 'timed clauses: 50 ms slack; a case in which the system clock was stepped against the steady clock, or in '
                 'which a millisecond-sleeping twin thread did not get through two check intervals, is inconclusive',
                 'cost convergence: the reference replicates the cumulative moving average as implemented; decisions '
                 'within 1e-9 relative of a threshold are inconclusive',
                 'under TSan only the thread scenarios run; TSan reports are not turned into C18 violations by the driver'])
