"""C17 (h_simplify) and C18 (h_ptc): path post-processing and termination conditions."""

ENGINES['h_simplify'] = ('C++ harness: generated fat-obstacle worlds over R2/R3/SE(2)/weighted compound/Dubins, valid input '
                         'paths (planner output, zig-zags, degenerate paths), every PathSimplifier / PathGeometric '
                         'densifier / PathHybridization routine applied to a fresh copy with drawn parameters and '
                         'objective, before/after oracle with dense re-validation; ASan+UBSan build')
ENGINES['h_ptc'] = ('C++ harness: scripted traces and reference models for every PlannerTerminationCondition kind '
                    '(predicate, or/and nestings, terminate(), iteration, timed, exact-solution, cost-convergence, '
                    'periodic thread) incl. two-thread scenarios; ASan+UBSan build, thread scenarios also under TSan')

reg('C17', engine='h_simplify',
    rule='one case = one generated world (space kind, resolution 0.5-2 %, 0-9 ball/box obstacles >= 4 resolution lengths '
         'thick, optional heading slab) + one input path that passes check() and the dense oracle (RRT/RRTConnect/KPIECE1 '
         'output under an evaluation-counting termination condition, zig-zag, long, 2-/3-state, repeated states, zero-length '
         'segments, total length 0, single state) + 12 routines and one hybridization applied to copies with parameters and '
         'objective (length / clearance / affine cost-field integral) drawn per application; non-trivial = input of >= 3 '
         'states in a world with >= 1 obstacle on which at least one routine changed the path; distinct = hash of the input '
         'path states and world',
    floors={'quick': {'c17_inputs': 1000, 'c17_routine_runs': 12000, 'c17_dense_samples': 9000000,
                      'c17_length_checks': 2400, 'c17_cost_checks_clearance': 1300, 'c17_cost_checks_integral': 1000,
                      'c17_cost_checks_length': 900, 'c17_simplify_true': 2000, 'c17_interpolate_count_checks': 900,
                      'c17_densify_runs': 3000, 'c17_hybrid_checks': 1000, 'c17_hybrid_strictly_better': 400,
                      'c17_in_RRT': 80, 'c17_in_RRTConnect': 90, 'c17_in_KPIECE1': 80, 'c17_in_long': 120,
                      'c17_in_total_length_zero': 80, 'c17_in_with_zero_length_segment': 200, 'c17_space_R2': 250,
                      'c17_space_R3': 150, 'c17_space_SE2': 190, 'c17_space_Compound': 180, 'c17_space_Dubins': 170,
                      'c17_last_replaced_by_goal_state': 450, 'c17_changed_partialShortcutPath': 700,
                      'c17_changed_perturbPath': 130, 'c17_changed_findBetterGoal': 500,
                      'c17_interpolate_count_zero_length_path': 40},
            'thorough': {'c17_inputs': 6000, 'c17_routine_runs': 72000, 'c17_dense_samples': 54000000,
                      'c17_length_checks': 14400, 'c17_cost_checks_clearance': 7800,
                      'c17_cost_checks_integral': 6000, 'c17_cost_checks_length': 5400, 'c17_simplify_true': 12000,
                      'c17_interpolate_count_checks': 5400, 'c17_densify_runs': 18000, 'c17_hybrid_checks': 6000,
                      'c17_hybrid_strictly_better': 2400, 'c17_in_RRT': 480, 'c17_in_RRTConnect': 540,
                      'c17_in_KPIECE1': 480, 'c17_in_long': 720, 'c17_in_total_length_zero': 480,
                      'c17_in_with_zero_length_segment': 1200, 'c17_space_R2': 1500, 'c17_space_R3': 900,
                      'c17_space_SE2': 1140, 'c17_space_Compound': 1080, 'c17_space_Dubins': 1020,
                      'c17_last_replaced_by_goal_state': 2700, 'c17_changed_partialShortcutPath': 4200,
                      'c17_changed_perturbPath': 780, 'c17_changed_findBetterGoal': 3000,
                      'c17_interpolate_count_zero_length_path': 240}},
    level_text='Held on the executions produced: for every generated (world, valid input path, routine, parameters, '
               'objective) the before/after oracle of DESIGN 4/C17 found first/last state, dense validity, length/cost '
               'monotonicity, simplify()=>check(), densifier vertex/count/length and hybrid-cost clauses satisfied.',
    technique='runtime monitoring: before/after oracle with dense re-validation over generated paths under ASan+UBSan',
    assumptions=['obstacle features are >= 4 resolution lengths thick, so an unvalidated motion through an obstacle shows '
                 'as an invalid run > 2 resolution lengths while a correctly validated one cannot (DESIGN 4/C01)',
                 'cost-field objective is affine in the position (trapezoid rule exact, objective independent of how a curve '
                 'is cut into segments); clearance objective: minimum clearance along the curve evaluated by the oracle at 1/4 resolution; a '
                 'deterioration is a verdict beyond 3 resolution lengths (each accepted modification is decided by the '
                 'library on samples one resolution length apart of a 1-Lipschitz field), smaller ones are counted only',
                 'smoothBSpline is not run on the non-metric space (documented precondition); simplify() is not required '
                 'to shorten (it may repair), its length ratio is a statistic',
                 'the build does not enable -fsanitize=float-cast-overflow (not part of gcc -fsanitize=undefined): the '
                 'NaN->int cast in interpolate(count) on zero-length paths is reached (counter '
                 'c17_interpolate_count_zero_length_path) but not trapped'])

reg('C18', engine='h_ptc', variants={'quick': ['asan'], 'thorough': ['asan', 'tsan']},
    rule='one case = one generated history on one kind of termination condition (kind = fixed function of the case index): '
         'scripted predicate trace (1-500 steps) with terminate(); random or/and nesting (depth <= 5, <= 20 nodes, always/'
         'never leaves, copies) with terminate() from the evaluating or a second thread; a block of 25 iteration counts n '
         '(0..1000 in 41 blocks) directly with reset() and through the cast; a timed condition (5-300 ms, direct or '
         'polled); an exact-solution history on a problem definition; a cost sequence through the cost-convergence '
         'condition; a periodic condition over logical steps with copies, a second evaluating thread, terminate() and '
         'destruction; every evaluation is compared with the reference model; non-trivial = history of >= 2 steps',
    floors={'quick': {'c18_pred_evals': 200000, 'c18_nest_evals': 4000000, 'c18_nesting_depth_5': 700,
                      'c18_terminate_same_thread': 6000, 'c18_terminate_second_thread': 600,
                      'c18_steps_concurrent_with_terminate': 2000, 'c18_evals_after_terminate': 300000,
                      'c18_iter_n_values_run': 20000, 'c18_iter_n_edge_values_run': 50, 'c18_iter_resets': 50000,
                      'c18_timed_runs': 1300, 'c18_timed_became_true': 1300, 'c18_timed_false_evals': 100000,
                      'c18_exact_evals': 28000, 'c18_exact_clears': 4000, 'c18_costconv_sequences': 1300,
                      'c18_costconv_fired': 900, 'c18_periodic_cases': 1300, 'c18_periodic_polls': 15000,
                      'c18_periodic_second_thread_cases': 600, 'c18_periodic_destroy_checks': 1300},
            'thorough': {'c18_pred_evals': 800000, 'c18_nest_evals': 16000000, 'c18_nesting_depth_5': 2800,
                      'c18_terminate_same_thread': 24000, 'c18_terminate_second_thread': 2400,
                      'c18_steps_concurrent_with_terminate': 8000, 'c18_evals_after_terminate': 1200000,
                      'c18_iter_n_values_run': 80000, 'c18_iter_n_edge_values_run': 200, 'c18_iter_resets': 200000,
                      'c18_timed_runs': 5200, 'c18_timed_became_true': 5200, 'c18_timed_false_evals': 400000,
                      'c18_exact_evals': 112000, 'c18_exact_clears': 16000, 'c18_costconv_sequences': 5200,
                      'c18_costconv_fired': 3600, 'c18_periodic_cases': 5200, 'c18_periodic_polls': 60000,
                      'c18_periodic_second_thread_cases': 2400, 'c18_periodic_destroy_checks': 5200}},
    level_text='Held on the executions produced: every evaluation of every generated termination-condition history agreed '
               'with the reference model of its kind (DESIGN 4/C18); timing clauses with 50 ms slack on the steady clock.',
    technique='runtime monitoring: reference models over scripted traces, logical-step monitor for the periodic thread; '
              'ASan+UBSan, thread scenarios also under TSan',
    assumptions=['cross-thread terminate() is ordered through a harness atomic (release/acquire); evaluations that overlap '
                 'the call may see either state (the race on the flag itself is C19)',
                 'timed clauses: 50 ms slack; a case in which the system clock was stepped against the steady clock, or in '
                 'which a millisecond-sleeping twin thread did not get through two check intervals, is inconclusive',
                 'cost convergence: the reference replicates the cumulative moving average as implemented; decisions '
                 'within 1e-9 relative of a threshold are inconclusive',
                 'under TSan only the thread scenarios run; TSan reports are not turned into C18 violations by the driver'])
