ENGINES['h_informed'] = ('C++ harness: ompl::ProlateHyperspheroid mechanism checks (affine map, surface focal sum, Jacobian determinant, '
                         'measure), PathLengthDirectInfSampler / RejectionInfSampler per-sample oracle on R^2..R^8, SE(2), SE(3) with '
                         '1-3 starts x 1-3 goals under non-increasing cost bounds, and two-sample uniformity tests against an '
                         'independent harness-side generator; ASan+UBSan build')
ENGINES['h_constraint'] = ('C++ harness: manifold zoo with analytic Jacobians (sphere, ellipsoid, torus, planes, sphere-cap-plane, '
                           'S2xS1) x Projected / Atlas / TangentBundle state spaces: constraint norm of every sampled, interpolated, '
                           'geodesic and solution-path state, geodesic step and end bounds, five planners under an '
                           'evaluation-counting termination condition; ASan+UBSan build')
reg('C15', engine='h_informed',
    rule='one case = (a) one prolate hyperspheroid in dimension 2-8 (focal separation 2e-9..30, centre scale 0..1000, axis-aligned '
         'or random axis, bound from d(1+1e-9) to 1000) through the deterministic mechanism checks, or (b) one informed sampler '
         'instance (direct or rejection; R^2..R^8, SE(2), SE(3); 1-3 starts x 1-3 goals; near / far / axis-aligned / random foci; '
         'maxNumberCalls 1..1000) driven with a non-increasing bound sequence from up to 10x the space diagonal down to as low as '
         'd(1+1e-9), every third call lower-bounded, or (c) 60 000 samples at a fixed bound compared cell by cell with 240 000 '
         'samples of an independent generator; non-trivial = at least one successful sample / one hyperspheroid was checked; '
         'distinct = distinct (kind, space, dimension, starts, goals, regime, bounds) hash',
    floors={'quick': {'c15_mechanism_cases': 1000, 'c15_affine_checks': 15000, 'c15_surface_checks': 80000,
                      'c15_determinant_checks': 1500, 'c15_measure_checks': 1500, 'c15_mechanism_thin': 300,
                      'c15_mechanism_tiny_separation': 150, 'c15_mechanism_axis_aligned': 200,
                      'c15_samples_direct': 300000, 'c15_samples_rejection': 25000, 'c15_samples_lower_bounded': 80000,
                      'c15_samples_se': 100000, 'c15_samples_thin_bound': 70000, 'c15_multi_focus_cases': 600,
                      'c15_informed_measure_checks': 10000, 'c15_informed_measure_uncapped': 5000,
                      'c15_uniformity_cases': 300, 'c15_uniformity_multi_phs_cases': 100, 'c15_uniformity_overlap_cases': 100,
                      'c15_uniformity_se_cases': 80, 'c15_uniformity_lower_bounded_cases': 60,
                      'c15_uniformity_box_mode_cases': 60, 'c15_uniformity_cells_tested': 7000,
                      'c15_uniformity_library_samples': 20000000},
            'thorough': {'c15_mechanism_cases': 6000, 'c15_surface_checks': 500000, 'c15_samples_direct': 2000000,
                         'c15_samples_rejection': 150000, 'c15_samples_lower_bounded': 500000, 'c15_samples_se': 600000,
                         'c15_samples_thin_bound': 400000, 'c15_informed_measure_checks': 60000,
                         'c15_uniformity_cases': 2000, 'c15_uniformity_overlap_cases': 600, 'c15_uniformity_se_cases': 500,
                         'c15_uniformity_cells_tested': 45000, 'c15_uniformity_library_samples': 200000000}},
    level_text='every successful informed sample observed is in bounds, has the sampler\'s own heuristic cost below the bound (and not '
               'below the lower bound) and that heuristic equals the focal-sum recomputed by the harness; the hyperspheroid map is '
               'affine with the analytic determinant, surface and measure in every generated configuration; sampled densities agree '
               'with an independent generator at 8 sigma on an axis-aligned grid, on the covered-by-k-hyperspheroids classes and in '
               'the hyperspheroid frame',
    technique='runtime monitoring: per-sample oracle + deterministic mechanism checks + two-sample occupancy tests, under ASan+UBSan',
    assumptions=['samplers are driven as planners drive them: non-increasing bounds per instance, goal-region cost-to-go heuristic '
                 'installed; "heuristic solution cost" is the sampler\'s own heuristicSolnCost() (DESIGN 4/C15)',
                 'a sample whose heuristic cost reaches the bound by less than 16 ulp of its coordinate magnitude (hyperspheroids '
                 'thinner than the floating-point grid) is counted (c15_cost_at_bound_within_ulp_stat), not reported',
                 'uniformity is decided statistically: deviations below about 10% per cell (8 sigma at >= 1000 expected samples) '
                 'are not detectable at the quick sample size'])
reg('C16', engine='h_constraint',
    rule='one case = (manifold from the zoo with random parameters, Projected | Atlas | TangentBundle, delta in [0.01,0.5], lambda in '
         '[1.5,5], tolerance in [1e-6,1e-3], atlas parameters, 0-4 ambient-ball obstacles, one of RRT/RRTConnect/PRM/KPIECE1/BIT*): '
         '60 sampler triples, 10 near + 4 far + across-obstacle pairs (interpolate on a t grid, discreteGeodesic in both modes), one '
         'planner run under an evaluation-counting termination condition (per-case sizes are the same in both tiers, the thorough tier runs 7.5 times as many cases); non-trivial = a successful geodesic or a solution path with '
         '>= 3 states was examined; distinct = (manifold, space, planner, delta/lambda/tolerance bucket) hash',
    floors={'quick': {'c16_uniform_samples': 100000, 'c16_near_samples': 100000, 'c16_gaussian_samples': 100000,
                      'c16_interpolated_states': 150000, 'c16_geodesics_ok': 30000, 'c16_geodesic_states': 400000,
                      'c16_pairs_across_obstacle': 2000, 'c16_pairs_far': 5000, 'c16_pairs_near': 15000,
                      'c16_paths_checked': 1500, 'c16_path_vertices': 15000,
                      'c16_paths_RRT': 250, 'c16_paths_RRTConnect': 250, 'c16_paths_PRM': 250, 'c16_paths_KPIECE1': 250,
                      'c16_paths_BITstar': 250,
                      'c16_cases_ProjectedStateSpace': 500, 'c16_cases_AtlasStateSpace': 500,
                      'c16_cases_TangentBundleStateSpace': 500,
                      'c16_cases_manifold_sphere': 100, 'c16_cases_manifold_ellipsoid': 100, 'c16_cases_manifold_torus': 100,
                      'c16_cases_manifold_plane-axis-aligned': 100, 'c16_cases_manifold_plane-tilted': 100,
                      'c16_cases_manifold_two-planes-axis-aligned': 100, 'c16_cases_manifold_two-planes-tilted': 100,
                      'c16_cases_manifold_sphere-cap-plane': 100, 'c16_cases_manifold_S2xS1': 100},
            'thorough': {'c16_uniform_samples': 800000, 'c16_near_samples': 800000, 'c16_gaussian_samples': 800000,
                         'c16_interpolated_states': 1200000, 'c16_geodesics_ok': 240000, 'c16_geodesic_states': 3200000,
                         'c16_pairs_across_obstacle': 16000, 'c16_pairs_far': 40000, 'c16_pairs_near': 120000,
                         'c16_paths_checked': 12000, 'c16_path_vertices': 120000,
                         'c16_paths_RRT': 2000, 'c16_paths_RRTConnect': 2000, 'c16_paths_PRM': 2000, 'c16_paths_KPIECE1': 2000,
                         'c16_paths_BITstar': 2000,
                         'c16_cases_ProjectedStateSpace': 4000, 'c16_cases_AtlasStateSpace': 4000,
                         'c16_cases_TangentBundleStateSpace': 4000,
                         'c16_cases_manifold_sphere': 800, 'c16_cases_manifold_ellipsoid': 800, 'c16_cases_manifold_torus': 800,
                         'c16_cases_manifold_plane-axis-aligned': 800, 'c16_cases_manifold_plane-tilted': 800,
                         'c16_cases_manifold_two-planes-axis-aligned': 800, 'c16_cases_manifold_two-planes-tilted': 800,
                         'c16_cases_manifold_sphere-cap-plane': 800, 'c16_cases_manifold_S2xS1': 800}},
    level_text='the constraint norm of every sampler, interpolate, successful-geodesic (Projected, Atlas) and solution-path state that '
               'was produced is within the tolerance; successful geodesics keep steps <= lambda*delta and end within delta of the '
               'target, measured with the space\'s own distance',
    technique='runtime monitoring: on-manifold oracle with the harness\'s own constraint code, under ASan+UBSan',
    assumptions=['inputs to interpolate / discreteGeodesic / planners are on the manifold (||F|| <= tolerance) as the statement requires',
                 'TangentBundle intermediate geodesic states are exempt as stated',
                 'PRM alternates grow/expand phases on wall-clock slices internally, so a PRM case need not replay state by state'])
