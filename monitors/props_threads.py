import glob, json, re

ENGINES['h_threads'] = ('C++ harness built with -fsanitize=thread: 2-16 threads on the documented thread-safe surface (shared '
                        'checkMotion/isValid, GNAT queries, RNG/space creation, ProblemDefinition add/read history, logging, '
                        'terminate()) and the multi-threaded planners under seeded yield-point perturbation (OMPL_VERIF_YIELD hooks)')
reg('C19', engine='h_threads', variants=['tsan'],
    rule='one case = one scenario instance: 6 surface scenarios (2-16 threads released from a barrier on one shared object) and '
         '9 multi-threaded planner configurations (pRRT, pSBL, CForest, PRM, PRM*, SPARS, SPARStwo, AnytimePathShortening, '
         'RRTConnect fed by GoalLazySamples) on generated worlds with a per-case perturbation seed for the yield hooks; '
         'non-trivial = planner run that passed through >= 1 yield point (or a surface scenario); distinct = interleaving '
         'signature (hash of the global order of (thread, yield point) events) x scenario',
    floors={'quick': {'c19_checkMotion_calls': 100000, 'c19_gnat_queries': 50000, 'c19_pdef_snapshots': 10000, 'c19_log_lines': 20000,
                      'c19_ptc_evaluations': 20000, 'c19_yield_events': 50000, 'c19_planners_with_2_signatures': 7,
                      'c19_planner_continued_solves': 120},
            'thorough': {'c19_planners_with_2_signatures': 5}},
    hang_is_violation=True, case_timeout={'quick': 300, 'thorough': 600},
    level_text='ThreadSanitizer (happens-before race detection, lock-order inversion) on every execution plus functional '
               'history checkers (counters, exactly-once, real-time order of add/snapshot, sticky terminate) and the C01 '
               'solution oracle on the results of the multi-threaded planners',
    technique='runtime monitoring: ThreadSanitizer + history checkers under seeded schedule perturbation',
    assumptions=['gcc TSan understands std::mutex/std::atomic/std::thread/call_once and glibc (probe: no report on RNG / '
                 'space / problem-definition / logging traffic); only interleavings that happened are decided'])


def _post_c19(run, shards, stats, fps, sanlog):
    # (1) TSan reports -> keys
    nrep = 0
    for s in shards:
        txt = ''
        for f in sorted(glob.glob(s.base + '.tsan.*')) + sorted(glob.glob(s.base + '_crash*.tsan.*')):
            try:
                txt += open(f, errors='replace').read() + '\n'
            except OSError:
                pass
        if not txt:
            continue
        for key, e in sanlog.tsan_keys('C19', txt).items():
            nrep += e['count']
            run.add_viol(key, dict(kind='tsan', report=e['text']), variant=s.variant, n=e['count'])
    stats['c19_tsan_reports_total'] = nrep
    # (2) interleaving signatures per planner
    sigs = {}
    for s in shards:
        try:
            for line in open(s.out):
                if line.startswith('{"t":"sig"'):
                    r = json.loads(line)
                    if r.get('events', 0) > 0:
                        sigs.setdefault(r['subject'], set()).add(r['h'])
        except OSError:
            pass
    for subj, hs in sigs.items():
        stats['c19_distinct_signatures:' + subj] = len(hs)
    stats['c19_planners_with_2_signatures'] = sum(1 for hs in sigs.values() if len(hs) >= 2)


POST['C19'] = _post_c19
