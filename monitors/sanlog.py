"""Sanitizer log parsing: turns ASan / UBSan / LSan / TSan reports into stable violation keys (DESIGN.md §2.5)."""
import re, glob, os

FRAME = re.compile(r'^\s*#(\d+) 0x[0-9a-f]+ (?:in )?(.*?)(?: (/[^\s:]+|[\w./+-]+):(\d+)(?::\d+)?)?(?: \(.*\))?$')


_OPS = {'<<=': 'shl_assign', '<<': 'shl', '<=>': 'spaceship', '<=': 'le', '<': 'lt', '>>=': 'shr_assign', '>>': 'shr',
        '>=': 'ge', '->*': 'arrow_star', '->': 'arrow', '>': 'gt'}


def strip_templates(s):
    s = re.sub(r'operator\s*(<<=|<<|<=>|<=|<|>>=|>>|>=|->\*|->|>)', lambda m: 'operator_' + _OPS[m.group(1)], s)
    out, depth = [], 0
    for c in s:
        if c == '<':
            depth += 1
        elif c == '>':
            depth = max(0, depth - 1)
        elif depth == 0:
            out.append(c)
    return ''.join(out)


def norm_func(f):
    """function name without template arguments, parameter list, cv-qualifiers, clone suffixes, line numbers"""
    f = f.strip()
    f = re.sub(r'\[clone [^\]]*\]', '', f)
    f = re.sub(r'\[abi:[^\]]*\]', '', f)
    f = strip_templates(f)
    # drop parameter list: cut at the first '(' that is not part of 'operator()'
    f = f.replace('operator()', 'operator__call__')
    f = re.sub(r'\{lambda\([^)]*\)#(\d+)\}', r'lambda\1', f)
    f = re.sub(r'\(anonymous namespace\)', 'anon', f)
    p = f.find('(')
    if p >= 0:
        f = f[:p]
    f = f.replace('operator__call__', 'operator()')
    # drop a leading return type ("void ompl::x::y") left over from templates
    parts = f.split(' ')
    f = parts[-1] if parts else f
    return f.strip()


TSAN_FRAME = re.compile(r'^\s*#(\d+) (.*?) (\S+?)(?::(\d+))?(?::\d+)? \((\S+)\)\s*$')


def parse_stack(lines):
    """list of (func, file, line) for consecutive '#n' frame lines (ASan/UBSan and TSan formats)"""
    st = []
    for l in lines:
        l = l.rstrip()
        m = FRAME.match(l)
        if m and re.match(r'^\s*#\d+ 0x', l):
            st.append((m.group(2).strip(), m.group(3) or '', m.group(4) or ''))
            continue
        m = TSAN_FRAME.match(l)
        if m:
            st.append((m.group(2).strip(), m.group(3) or '', m.group(4) or ''))
            continue
        if st:
            break
    return st


def is_lib(fr):
    fn, fi, _ = fr
    return 'ompl::' in fn and '/harness/' not in fi


CONTAINER = re.compile(r'^ompl::(PDF|Grid|GridN|GridB|BinaryHeap|NearestNeighbors\w*|GreedyKCenters)::')


def first_lib_frame(stack):
    """innermost frame that belongs to the library: located in the repository sources (std:: / boost:: frames inlined
    from library code are skipped), else a function in namespace ompl"""
    container = None
    for fr in stack:
        fn, fi, _ = fr
        if '/src/ompl/' in fi and '/harness/' not in fi:
            n = norm_func(fn)
            if n.startswith('std::') or n.startswith('boost::') or n.startswith('__gnu_cxx::') or n.startswith('Eigen::'):
                continue
            # the containers are not thread safe by themselves: the culprit is the library code that calls them
            # (if the harness called them directly there is no such frame and the container function is used)
            if CONTAINER.match(n):
                container = container or n
                continue
            return n
    if container:
        return container
    for fr in stack:
        n = norm_func(fr[0])
        if n.startswith('ompl::') and '/harness/' not in fr[1]:
            return n
    return norm_func(stack[0][0]) if stack else 'unknown'


def _read(globpat):
    txt = ''
    for f in sorted(glob.glob(globpat)):
        try:
            txt += open(f, errors='replace').read() + '\n'
        except OSError:
            pass
    return txt


def asan_keys(prop, txt):
    keys = []
    for m in re.finditer(r'==\d+==ERROR: AddressSanitizer: ([\w-]+)(.*?)(?=(==\d+==ERROR: )|\Z)', txt, re.S):
        kind = m.group(1)
        body = m.group(0)
        lines = body.split('\n')
        stack = parse_stack(lines[1:])
        keys.append(('%s:asan:%s:%s' % (prop, kind, first_lib_frame(stack)), body[:2500]))
    return keys


def ubsan_keys(prop, txt):
    keys = []
    for m in re.finditer(r'^(\S+?):(\d+):(\d+): runtime error: (.*)$', txt, re.M):
        msg = m.group(4)
        cls = re.sub(r'0x[0-9a-f]+', 'ADDR', msg)
        cls = re.sub(r'-?\d+(\.\d+)?(e[+-]?\d+)?', 'N', cls)
        cls = re.sub(r"'[^']*'", 'T', cls)[:60].strip().replace(' ', '_')
        rest = txt[m.end():].split('\n')
        stack = parse_stack(rest[:40])
        fn = first_lib_frame(stack) if stack else os.path.basename(m.group(1))
        keys.append(('%s:ubsan:%s:%s' % (prop, cls, fn), txt[m.start():m.start() + 2000]))
    return keys


def lsan_blocks(txt):
    """[(bytes, objects, stack)] for every leak block"""
    out = []
    for m in re.finditer(r'(Direct|Indirect) leak of (\d+) byte\(s\) in (\d+) object\(s\) allocated from:\n((?:\s+#\d+ .*\n)+)', txt):
        out.append((m.group(1), int(m.group(2)), int(m.group(3)), parse_stack(m.group(4).split('\n'))))
    return out


def crash_keys(prop, base, rc, stderr_txt=''):
    txt = _read(base + '.asan.*') + '\n' + stderr_txt
    keys = asan_keys(prop, txt)
    utxt = _read(base + '.ubsan.*') + txt
    keys += ubsan_keys(prop, utxt)
    # de-duplicate, keep order
    seen, out = set(), []
    for k, w in keys:
        if k not in seen:
            seen.add(k)
            out.append((k, w))
    return out


# ---- ThreadSanitizer ----------------------------------------------------------------------------------------
def tsan_reports(txt):
    """yield dict(kind, stacks=[...]) per TSan report block"""
    blocks = re.split(r'^={18}$', txt, flags=re.M)
    for b in blocks:
        m = re.search(r'WARNING: ThreadSanitizer: ([^\n(]+?)\s*\(pid=\d+\)', b)
        if not m:
            continue
        kind = m.group(1).strip()
        lines = b.split('\n')
        sections, cur, title = [], None, None
        for l in lines:
            if re.match(r'^  \S', l) and not l.lstrip().startswith('#'):
                if cur is not None:
                    sections.append((title, cur))
                title, cur = l.strip(), []
            elif cur is not None and l.strip().startswith('#'):
                cur.append(l)
        if cur is not None:
            sections.append((title, cur))
        yield dict(kind=kind, sections=[(t, parse_stack(s)) for t, s in sections], text=b)


PLANNER_NS = re.compile(r'^ompl::(geometric|control|multilevel)::')


def race_frame(stack):
    """frame naming a data race: the innermost planner function if the access happens (however deep) inside a planner --
    generic state-space / container functions reached from a planner are symptoms of the planner's locking -- else the
    innermost library function"""
    for fr in stack:
        n = norm_func(fr[0])
        if PLANNER_NS.match(n) and '/harness/' not in fr[1]:
            return n
    return first_lib_frame(stack)


def tsan_keys(prop, txt):
    """data races keyed by the innermost library function of both accesses; other report kinds by their first stack"""
    out = {}
    for r in tsan_reports(txt):
        kind = r['kind']
        if kind == 'data race':
            acc = [(t, s) for t, s in r['sections'] if re.match(r'(Write|Read|Previous|Atomic|As if)', t) and s]
            fs = sorted(race_frame(s) for _, s in acc[:2])
            key = '%s:race:%s' % (prop, '|'.join(fs))
        elif 'lock-order-inversion' in kind:
            sts = [s for t, s in r['sections'] if s]
            fs = sorted(set(race_frame(s) for s in sts[:4]))
            key = '%s:lock-order:%s' % (prop, '|'.join(fs[:2]))
        else:
            sts = [s for t, s in r['sections'] if s]
            key = '%s:tsan:%s:%s' % (prop, kind.replace(' ', '-'), first_lib_frame(sts[0]) if sts else 'unknown')
        e = out.setdefault(key, dict(count=0, text=r['text'][:3500]))
        e['count'] += 1
    return out


# ---------------------------------------------------------------------------------------------------------
# valgrind memcheck logs (variant "memcheck": the plain -O2 build under valgrind; used for what ASan cannot see:
# values that depend on uninitialised memory)
MEMCHECK_KINDS = [
    (re.compile(r'Conditional jump or move depends on uninitialised value'), 'uninitialised-branch'),
    (re.compile(r'Use of uninitialised value'), 'uninitialised-use'),
    (re.compile(r'Syscall param .* (uninitialised|unaddressable)'), 'uninitialised-syscall-param'),
    (re.compile(r'Invalid read of size'), 'invalid-read'),
    (re.compile(r'Invalid write of size'), 'invalid-write'),
    (re.compile(r'Invalid free|Mismatched free'), 'invalid-free'),
    (re.compile(r'Source and destination overlap'), 'overlap'),
    (re.compile(r'Jump to the invalid address'), 'invalid-jump'),
]
MEMCHECK_FRAME = re.compile(r'^==\d+==\s+(?:at|by) 0x[0-9A-Fa-f]+: (.*?)(?: \(([^()]*)\))?\s*$')


def memcheck_keys(prop, base):
    """-> [(key, report text)] for every error block in base.memcheck.<pid>; key = prop:memcheck:<kind>:<innermost ompl function>"""
    out = []
    for f in sorted(glob.glob(base + '.memcheck.*')):
        try:
            lines = open(f, errors='replace').read().splitlines()
        except OSError:
            continue
        i = 0
        while i < len(lines):
            body = re.sub(r'^==\d+== ?', '', lines[i])
            kind = None
            for rx, k in MEMCHECK_KINDS:
                if rx.search(body):
                    kind = k
                    break
            if kind is None:
                i += 1
                continue
            block, funcs = [lines[i]], []
            i += 1
            while i < len(lines) and re.sub(r'^==\d+== ?', '', lines[i]).strip() != '':
                block.append(lines[i])
                m = MEMCHECK_FRAME.match(lines[i])
                # only the access stack (frames before an "Uninitialised value was created" / "Address ... is" line)
                if re.search(r'Uninitialised value was created|Address 0x', lines[i]):
                    # keep reading the block for the witness, but stop collecting frames
                    funcs.append(None)
                if m and None not in funcs:
                    funcs.append(norm_func(m.group(1)))
                i += 1
            frames = [x for x in funcs if x]
            fn = next((x for x in frames if x.startswith('ompl::')), frames[0] if frames else '?')
            out.append(('%s:memcheck:%s:%s' % (prop, kind, fn), '\n'.join(block[:40])))
    return out
