# fragment loaded by props.py (reg, ENGINES, POST, CRASHKEY, NOT_CLAIMED are injected)
ENGINES['h_control'] = ('C++ harness: eight control-planner variants x four harness-owned dynamical systems (first-order '
                        'point, kinematic car on SE(2), Euler double integrator, point robot with a discrete control space) in generated obstacle worlds; every '
                        'registered PathControl is replayed step by step with the harness\'s own propagator; ASan+UBSan build')

_PLANNERS = ['RRT', 'RRT-intermediate', 'SST', 'EST', 'KPIECE1', 'PDST', 'SyclopRRT', 'SyclopEST']
_SYSTEMS = ['point', 'car', 'dint']


def _floors(per_planner, per_combo, controls, steps, exact, approx, creeping, cont):
    f = {'c02_controls_replayed': controls, 'c02_steps_replayed': steps, 'c02_multistep_controls': controls // 10,
         'c02_dint_controls_where_long_step_differs': controls // 100, 'c02_start_checks': per_planner * 8,
         'c02_goal_checks_exact': exact * 8, 'c02_goal_checks_approx': approx * 4,
         'c02_cases_creeping_system': creeping, 'c02_controls_with_steps_below_float_eps': creeping * 50}
    # continued solve() histories: cont = floor on continued calls
    f.update({'c02_continued_solve_calls': cont, 'c02_continued_solve_calls_after_exact_solution': cont * 4 // 9,
              'c02_continued_solve_calls_tiny_budget': cont // 2, 'c02_clearSolutionPaths_between_calls': cont // 2,
              'c02_paths_registered_after_exact_solution_approx': cont // 9,
              'c02_paths_registered_after_exact_solution_exact': cont * 5 // 18})
    for p in _PLANNERS:
        if p != 'PDST':   # PDST returns at once when it already holds an exact solution
            f['c02_paths_registered_after_exact_solution:' + p] = cont // 36
    # the fourth system (discrete control space with a non-zero lower bound) has its own block of cases
    f['c02_cases_discrete_control_system'] = per_planner * 2 // 3
    f['c02_discrete_controls_checked'] = controls // 14
    for p in _PLANNERS:
        f['c02_replayed:%s:pointd' % p] = per_combo // 4
    for p in _PLANNERS:
        f['c02_replayed:' + p] = per_planner
        f['c02_solutions_exact:' + p] = exact
        f['c02_solutions_approx:' + p] = approx
        for s in _SYSTEMS:
            f['c02_replayed:%s:%s' % (p, s)] = per_combo
    return f


reg('C02', engine='h_control',
    rule='one case = one control planner variant (RRT, RRT-intermediate, SST, EST, KPIECE1, PDST, SyclopRRT, SyclopEST) on '
         'one generated system (point / car / Euler double integrator, plus a block of cases on a point robot steered through a '
         'DiscreteControlSpace with a non-zero lower bound; control bounds, step size, min/max duration, '
         'directed-sampler k drawn; 3% "creeping" systems whose propagation steps are closer than float epsilon) in one '
         'generated obstacle world with drawn start(s)/goal/threshold, planner '
         'parameters and library seed, run under an evaluation-count termination condition; 1 of 3 cases drives the same planner '
         'instance through 2-3 consecutive solve() calls whatever the earlier calls returned (drawn budgets, half of the '
         'later ones 10-100 evaluations, clearSolutionPaths() in half of the gaps); every path registered by any call is '
         'judged with the status of the call that registered it and replayed control by control '
         'from its recorded states; non-trivial = a registered path with >= 2 controls was replayed; distinct = '
         'distinct hash of (planner, system, world, start/goal, parameters, seed)',
    floors={'quick': _floors(per_planner=200, per_combo=60, controls=120000, steps=400000, exact=80, approx=35,
                             creeping=50, cont=900),
            'thorough': _floors(per_planner=800, per_combo=250, controls=450000, steps=1400000, exact=350, approx=100,
                                creeping=200, cont=3000)},
    level_text='every solution path that any of the eight control-planner variants registered on the generated '
               '(system, world, seed) tuples was re-executed with an independent copy of the propagator: durations are '
               'whole step counts, controls lie in bounds, every replayed step is valid, replayed states equal the '
               'recorded ones (bit-identical is expected and counted), the first state is a valid start, the last state '
               'satisfies the goal unless flagged approximate, and flag, status and reported difference agree',
    technique='runtime monitoring: independent step-wise replay oracle over generated planning problems under ASan+UBSan',
    args={'quick': {}, 'thorough': {}},   # --slowfrac f : fraction of creeping systems (default 0.03)
    assumptions=['the propagator and validity checker are pure functions owned by the harness (the same code is handed to '
                 'the library and used for the replay), tolerance 1e-9*(1+extent) per DESIGN 2.4',
                 'min/max control duration is not demanded of recorded durations (KPIECE1 and PDST split motions at cell '
                 'boundaries); only "whole number of steps >= 1" is',
                 'cases in which the planner reports no solution within the evaluation budget are inconclusive, not held'])
