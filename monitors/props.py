"""Per-property configuration of the checks: engine, build variants, sharding, coverage floors, texts."""
import re

PROPS = {}


def reg(pid, **kw):
    kw.setdefault('level', 'exploration')
    kw.setdefault('variants', ['asan'])
    PROPS[pid] = kw


reg('C10', engine='h_ds',
    rule='one case = one generated operation history (50-3000 ops) on one NN structure/parameterisation/point '
         'distribution/metric, compared op by op with a brute-force multiset model; non-trivial = history of >= 50 ops; '
         'distinct = distinct (parameters, seed) hash',
    floors={'quick': {'c10_queries': 50000, 'c10_pivot_removals': 200, 'c10_cache_flush_rebuilds': 100,
                      'c10_struct_walks': 5000, 'c10_hist_leaf_lt_degree': 50},
            'thorough': {'c10_queries': 500000, 'c10_pivot_removals': 2000, 'c10_cache_flush_rebuilds': 1000}},
    assumptions=['distance functions generated are true metrics; under rounded Euclidean distance elements within 1e-12 '
                 'relative of the k-th distance / radius are optional (DESIGN 4/C10)'])
reg('C11', engine='h_ds',
    rule='one case = one generated BinaryHeap operation history (10-2000 ops, duplicate-heavy keys, 3 comparators) checked '
         'after every op against a sorted-multiset + handle-map model, plus full drains; non-trivial = >= 10 ops',
    floors={'quick': {'c11_remove': 20000, 'c11_update': 20000, 'c11_drains': 5000},
            'thorough': {'c11_remove': 200000}})
reg('C12', engine='h_ds',
    rule='one case = one generated PDF history (add/update/remove/clear/sample; a third start from the two-vector '
         'constructor with 0-3000 elements) in the exact, float or hostile weight '
         'regime, prefix sums recomputed over getElements() order; non-trivial = at least one sample() was checked',
    floors={'quick': {'c12_samples': 50000, 'c12_remove_sibling_of_last': 500, 'c12_hist_exact': 500,
                      'c12_hist_hostile': 200, 'c12_bulk_constructed': 5000, 'c12_bulk_constructed_over_1024': 1000},
            'thorough': {'c12_samples': 500000}})
reg('C13', engine='h_ds',
    rule='one case = one generated history on Grid / GridN / GridB(<) / GridB(>) in dimension 1-6 compared with a '
         'coordinate-map model (lookups, neighbours, counts, border flags, queue tops, union-find components)',
    floors={'quick': {'c13_full_checks': 20000, 'c13_top_internal_checks': 1000, 'c13_top_external_checks': 5000,
                      'c13_multi_component_checks': 500},
            'thorough': {'c13_full_checks': 200000}})


def refine_crash_key(prop, key, shard, case):
    """hook for properties that want the crashing case's subject (e.g. planner name) in the key"""
    f = CRASHKEY.get(prop)
    return f(key, shard, case) if f else key


def post(prop, run, shards, stats, fps, sanlog):
    """property-specific offline monitors over the recorded logs"""
    f = POST.get(prop)
    if f:
        f(run, shards, stats, fps, sanlog)


def floors(prop, tier, stats, hashes, run, scale):
    msgs = []
    cfg = PROPS[prop]
    fl = cfg.get('floors', {}).get(tier, {})
    for k, v in fl.items():
        need = v * min(1.0, scale)
        if stats.get(k, 0) < need:
            msgs.append('coverage floor not met: %s = %s < %s' % (k, stats.get(k, 0), need))
    if len(hashes) < 2:
        msgs.append('fewer than 2 distinct non-trivial cases observed')
    return msgs

HOOK_COMMITS = ['7e55016de', '7f3813205', '6c123d073', '026593e10']
NOT_CLAIMED = {}
ENGINES = {
    'h_ds': 'C++ harness: generated operation histories on NN structures / BinaryHeap / PDF / Grid* checked in lock-step '
            'against brute-force models, with structural walks; ASan+UBSan build',
}

# engine-specific fragments: monitors/props_<engine>.py call reg(...) / set ENGINES[...] / POST[...] / CRASHKEY[...]
POST = {}      # prop -> function(run, shards, stats, fps, sanlog)
CRASHKEY = {}  # prop -> function(key, shard, case) -> key
import glob as _glob, os as _os, importlib.util as _ilu
for _f in sorted(_glob.glob(_os.path.join(_os.path.dirname(_os.path.abspath(__file__)), 'props_*.py'))):
    _spec = _ilu.spec_from_file_location(_os.path.basename(_f)[:-3], _f)
    _m = _ilu.module_from_spec(_spec)
    _m.reg, _m.ENGINES, _m.POST, _m.CRASHKEY, _m.NOT_CLAIMED = reg, ENGINES, POST, CRASHKEY, NOT_CLAIMED
    _spec.loader.exec_module(_m)
